#!/bin/bash
# revert_witness.sh <revert-patch> <old-witness.json> <SIM> <PROPERTY> <KIND> <new-witness.json>
# Re-create the witness of a repaired defect under the current oracles: apply the reverse of the fix to a scratch copy of
# /repo/openpectus, execute the old witness's plan there and store the violation of KIND as the new witness.
set -e
D=$(mktemp -d /tmp/vrev.XXXX); cp -r /repo/openpectus $D/; (cd $D && patch -p1 -s -i "$1")
jq .plan "$2" | VERIF_REPO=$D /verif/tools/mkwitness.py "$3" "$4" "$5" "$6" 2>&1 | grep -E "wrote|not violated|harness" || true
rm -rf $D
