#!/bin/bash
# Run the pinned test suite of /repo (guard off) and compare with the stable_pass list of /root/.vp/BASELINE.json.
OUT=${1:-/tmp/baseline.junit.xml}
cd /repo && env -u OPEN_PECTUS_VERIF /venv/bin/python -m pytest -ra -q -p no:cacheprovider --timeout=900 --continue-on-collection-errors --junitxml=$OUT > /tmp/baseline.log 2>&1
/venv/bin/python - "$OUT" <<'PY'
import json, sys
import xml.etree.ElementTree as ET
base = json.load(open("/root/.vp/BASELINE.json"))
ok = set()
for tc in ET.parse(sys.argv[1]).getroot().iter("testcase"):
    bad = any(ch.tag in ("failure", "error", "skipped") for ch in tc)
    if not bad:
        ok.add(f"{tc.get('classname')}::{tc.get('name')}")
missing = [t for t in base["stable_pass"] if t not in ok]
print(f"stable_pass {len(base['stable_pass'])}, passing now {len(base['stable_pass']) - len(missing)}")
for t in missing:
    print("NOT PASSING:", t)
PY
