#!/venv/bin/python
"""Sensitivity self-test: apply each /verif/mutants/<ID>-*.patch (or seeded/<id>/patch.diff) to a scratch copy
of /repo/openpectus (outside /repo and /verif), run the property's check against the copy and expect exit 1.

  tools/sensitivity.py [--tier quick] [--only C24] [--seeded] [--jobs 4]
Writes /verif/sensitivity_report.json.  Scratch copies are removed after each mutant.
"""
from __future__ import annotations

import argparse
import concurrent.futures as cf
import glob
import json
import os
import re
import shutil
import subprocess
import sys
import tempfile
import time

ROOT = os.path.dirname(os.path.dirname(os.path.abspath(__file__)))


def run_one(patch: str, prop: str, tier: str, runs: int | None, workers: int) -> dict:
    scratch = tempfile.mkdtemp(prefix="vmut.", dir="/tmp")
    t0 = time.time()
    try:
        shutil.copytree("/repo/openpectus", os.path.join(scratch, "openpectus"),
                        ignore=shutil.ignore_patterns("frontend-dist", "__pycache__"))
        p = subprocess.run(["patch", "-p1", "-s", "-i", patch], cwd=scratch, capture_output=True, text=True)
        if p.returncode != 0:
            return {"patch": patch, "property": prop, "status": "patch_failed", "out": p.stdout + p.stderr}
        env = dict(os.environ, VERIF_REPO=scratch, VERIF_WORKERS=str(workers))
        cmd = [os.path.join(ROOT, "check"), prop, "--tier", tier, "--no-evidence"]
        if runs:
            cmd += ["--runs", str(runs)]
        p = subprocess.run(cmd, env=env, capture_output=True, text=True, timeout=3600)
        kinds = sorted(set(re.findall(r"kind=(\S+)", p.stdout)))
        # replay files written against a mutant are not kept
        for m in re.findall(r"replay=(\S+)", p.stdout):
            if os.sep + "replays" + os.sep not in m:
                continue        # a committed witness reported as a regression: never delete
            try:
                os.remove(m)
            except OSError:
                pass
        return {"patch": os.path.relpath(patch, ROOT), "property": prop, "tier": tier,
                "status": {0: "MISSED", 1: "caught", 2: "harness_error"}.get(p.returncode, f"rc{p.returncode}"),
                "kinds": kinds, "wall_s": round(time.time() - t0, 1),
                "tail": p.stdout[-600:] if p.returncode != 1 else ""}
    finally:
        shutil.rmtree(scratch, ignore_errors=True)


def main() -> int:
    ap = argparse.ArgumentParser()
    ap.add_argument("--tier", default="quick")
    ap.add_argument("--only", default=None)
    ap.add_argument("--seeded", action="store_true")
    ap.add_argument("--runs", type=int, default=None)
    ap.add_argument("--jobs", type=int, default=2)
    ap.add_argument("--no-report", action="store_true")
    ap.add_argument("--reverts", action="store_true", help="mutants/reverts/*.patch: each repaired defect re-introduced")
    a = ap.parse_args()
    items: list[tuple[str, str]] = []
    if a.seeded:
        for meta in sorted(glob.glob(os.path.join(ROOT, "seeded", "*", "meta.json"))):
            m = json.load(open(meta))
            items.append((os.path.join(os.path.dirname(meta), "patch.diff"), m["property"]))
    elif a.reverts:
        for p in sorted(glob.glob(os.path.join(ROOT, "mutants", "reverts", "*.patch"))):
            items.append((p, os.path.basename(p).split("-")[0]))
    else:
        for p in sorted(glob.glob(os.path.join(ROOT, "mutants", "*.patch"))):
            items.append((p, os.path.basename(p).split("-")[0]))
    if a.only:
        only = set(a.only.split(","))
        items = [(p, pr) for p, pr in items if pr in only or os.path.basename(os.path.dirname(p)) in only
                 or os.path.basename(p)[:-6] in only]
    workers = max(2, 16 // a.jobs)
    out = []
    with cf.ThreadPoolExecutor(max_workers=a.jobs) as ex:
        for r in ex.map(lambda it: run_one(it[0], it[1], a.tier, a.runs, workers), items):
            print(f"{r['status']:14s} {r['property']} {r['patch']} {r.get('kinds', '')} {r.get('wall_s', '')}s", flush=True)
            if r["status"] not in ("caught",):
                print("   ", r.get("tail") or r.get("out"))
            out.append(r)
    if not a.no_report:
        name = "sensitivity_seeded.json" if a.seeded else ("sensitivity_reverts.json" if a.reverts else "sensitivity_report.json")
        path = os.path.join(ROOT, name)
        prev = {}
        if a.only and os.path.exists(path):
            prev = {r["patch"]: r for r in json.load(open(path))["results"]}
        for r in out:
            prev[r["patch"]] = r
        res = list(prev.values()) if a.only else out
        json.dump({"results": sorted(res, key=lambda r: r["patch"])}, open(path, "w"), indent=1)
    missed = [r for r in out if r["status"] != "caught"]
    print(f"{len(out) - len(missed)}/{len(out)} mutants caught")
    return 1 if missed else 0


if __name__ == "__main__":
    sys.exit(main())
