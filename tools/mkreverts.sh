#!/bin/bash
# mkreverts.sh: regenerate mutants/reverts/<PROP>-revert_<commit8>.patch for every (property, fix commit) pair of the
# "fixed" entries in known_findings.json, as the reverse of the fix applied to the CURRENT /repo HEAD (git revert
# --no-commit in a scratch worktree outside /repo and /verif), so the patches keep applying after later fixes.
# Extra pairs (a fix whose reversal another property's check also sees) are listed in EXTRA.
ROOT=$(cd "$(dirname "$0")/.." && pwd)
EXTRA="C11:d82e5337 C11:79a24916"
WT=/tmp/vrevert.$$
git -C /repo worktree add -q --detach $WT HEAD || exit 2
pairs=$(grep -o '"line": "fixed: property=C[0-9]* [0-9a-f]*' $ROOT/known_findings.json | sed 's/.*property=\(C[0-9]*\) \([0-9a-f]*\)/\1:\2/' | sort -u)
for pc in $pairs $EXTRA; do
  p=${pc%%:*}; c=${pc##*:}
  out=$ROOT/mutants/reverts/$p-revert_$c.patch
  git -C $WT checkout -q -- . ; git -C $WT reset -q --hard HEAD
  if git -C $WT revert --no-commit $c >/dev/null 2>&1; then
    git -C $WT diff HEAD -- openpectus ':!openpectus/test' > $out.new
    if [ -s $out.new ]; then mv $out.new $out; echo "ok       $p $c"; else rm -f $out.new; echo "empty    $p $c"; fi
  else
    git -C $WT revert --abort >/dev/null 2>&1
    echo "CONFLICT $p $c (kept existing: $(ls $out 2>/dev/null))"
  fi
done
git -C /repo worktree remove --force $WT
