#!/venv/bin/python
"""Regenerate /verif/MANIFEST.json from the check registry (sims/registry.py) and sims/not_applicable.py."""
import json, os, sys
ROOT = os.path.dirname(os.path.dirname(os.path.abspath(__file__)))
sys.path.insert(0, ROOT)
from simcore.core import setup_repo_path
setup_repo_path()
from sims import registry, manifest_text as mt

props = [json.loads(l)["id"] for l in open(os.path.join(ROOT, "properties.jsonl"))]
checks = []
for pid in props:
    if pid not in registry.SPECS:
        continue
    spec = registry.SPECS[pid]
    t = mt.CHECK_TEXT[pid]
    checks.append({
        "property_id": pid,
        "quick_cmd": f"./check {pid} --tier quick",
        "thorough_cmd": f"./check {pid} --tier thorough",
        "evidence_file": f"/verif/evidence/{pid}.json",
        "replay_cmd_template": f"./check {pid} --replay {{path}}",
        "engine": spec.sim,
        "level_claimed": {"category": spec.level, "text": t["level_text"], "design_ref": t["design_ref"]},
        "level_note": t["level_note"],
        "technique": t["technique"],
    })
na = [{"property_id": pid, "reason": mt.NOT_APPLICABLE[pid]} for pid in props if pid not in registry.SPECS]
missing = [pid for pid in props if pid not in registry.SPECS and pid not in mt.NOT_APPLICABLE]
assert not missing, missing
doc = {
    "version": 1,
    "setup_cmd": "./setup.sh",
    "hooks": {"guard": "OPEN_PECTUS_VERIF", "enable": "no hook is compiled in: every seam is an existing interface or a module attribute replaced at run time by the simulators (checks export OPEN_PECTUS_VERIF=1 anyway)",
              "baseline_off_cmd": "cd /repo && env -u OPEN_PECTUS_VERIF /venv/bin/python -m pytest -ra -q -p no:cacheprovider --timeout=900 --continue-on-collection-errors",
              "source_commits": [], "add_only": True},
    "engines": mt.ENGINES,
    "checks": checks,
    "not_applicable": na,
    "notes": mt.NOTES,
}
json.dump(doc, open(os.path.join(ROOT, "MANIFEST.json"), "w"), indent=1)
print(f"MANIFEST.json: {len(checks)} checks, {len(na)} not claimed")
