#!/venv/bin/python
"""mkmut.py NAME FILE  (reads JSON [[old,new],...] from stdin) -> /verif/mutants/NAME.patch
FILE is relative to /repo (e.g. openpectus/engine/engine.py). Each `old` must occur exactly once."""
import difflib, json, os, sys
name, rel = sys.argv[1], sys.argv[2]
pairs = json.load(sys.stdin)
src = open(os.path.join("/repo", rel)).read()
dst = src
for old, new in pairs:
    if dst.count(old) != 1:
        sys.exit(f"{name}: pattern occurs {dst.count(old)} times: {old!r}")
    dst = dst.replace(old, new)
diff = "".join(difflib.unified_diff(src.splitlines(True), dst.splitlines(True), "a/" + rel, "b/" + rel))
out = os.path.join(os.path.dirname(os.path.dirname(os.path.abspath(__file__))), "mutants", name + ".patch")
mode = "a" if os.environ.get("MKMUT_APPEND") else "w"
open(out, mode).write(diff)
print("wrote", out)
