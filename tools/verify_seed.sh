#!/bin/bash
# verify_seed.sh <ID> [test paths...]: confirm a seeded change in /tmp/seed-<ID> (demo fails with it, passes without it,
# tests pass with it), then store it under /verif/seeded/<ID>/.
ID=$1; shift
TAG=${SEED_TAG:-}          # worktree /tmp/seed$TAG-$ID
NAME=${SEED_NAME:-$ID}     # stored as /verif/seeded/$NAME
WT=/tmp/seed$TAG-$ID
cd $WT || exit 2
git diff --quiet && git apply seed/patch.diff
git diff -- openpectus > /tmp/seed-$ID.current.diff
echo "== files changed:"; git diff --stat -- openpectus | tail -3
echo "== demo WITH change (expect non-zero)"; PYTHONPATH=$WT timeout 300 /venv/bin/python seed/demo.py >/tmp/seed-$ID.with.log 2>&1; W=$?; echo "exit $W"; tail -3 /tmp/seed-$ID.with.log
git apply -R /tmp/seed-$ID.current.diff || exit 2
echo "== demo WITHOUT change (expect 0)"; PYTHONPATH=$WT timeout 300 /venv/bin/python seed/demo.py >/tmp/seed-$ID.without.log 2>&1; WO=$?; echo "exit $WO"; tail -2 /tmp/seed-$ID.without.log
git apply /tmp/seed-$ID.current.diff || exit 2
if [ $# -gt 0 ]; then
  echo "== tests WITH change"; timeout 1200 /venv/bin/python -m pytest -q -p no:cacheprovider -n 8 "$@" 2>&1 | grep -E "^FAILED|passed|failed" | grep -v "test_validate_demo_uod" | tail -6
fi
if [ $W -ne 0 ] && [ $WO -eq 0 ]; then
  mkdir -p /verif/seeded/$NAME; cp /tmp/seed-$ID.current.diff /verif/seeded/$NAME/patch.diff; cp seed/demo.py seed/meta.json /verif/seeded/$NAME/
  echo "STORED /verif/seeded/$NAME"
else
  echo "NOT CONFIRMED"
fi
