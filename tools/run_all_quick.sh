#!/bin/bash
# run_all_quick.sh [seed]: every quick check once in /verif against /repo (evidence files rewritten), one line per check.
cd /verif; rm -rf replays
S=${1:-1}
for p in $(/venv/bin/python -c "import json; print(' '.join(c['property_id'] for c in json.load(open('/verif/MANIFEST.json'))['checks']))"); do
  out=$(VERIF_SEED=$S VERIF_TIER=quick timeout 900 ./check $p --tier quick 2>&1); rc=$?
  echo "seed=$S $p rc=$rc $(echo "$out" | grep DONE | cut -c1-120)"
  if [ $rc -ne 0 ]; then echo "$out" | grep -E "^  kind|VIOLATION|HARNESS|repaired" | cut -c1-330; fi
done
