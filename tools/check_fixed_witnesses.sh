#!/bin/bash
# check_fixed_witnesses.sh <commit8> : apply the reverse of that fix to a scratch copy and show what every fixed-entry
# witness of the commit yields there (it must reproduce its violation, else the witness is stale under today's oracles).
C=$1
P=$(ls /verif/mutants/reverts/*-revert_$C.patch)
D=$(mktemp -d /tmp/vrev.XXXX); cp -r /repo/openpectus $D/; (cd $D && patch -p1 -s -i $P)
for w in $(jq -r --arg c "$C" '.findings[] | select(.status=="fixed" and (.commit|startswith($c))) | .witness' /verif/known_findings.json | sort -u); do
  echo "== $w (expects $(jq -r '.expect.kind + " " + .expect.site' /verif/$w))"
  VERIF_REPO=$D /venv/bin/python /verif/simcore/cli.py replay /verif/$w 2>/dev/null | grep -E "observed|VIOLATION|not reproduced" | cut -c1-260
done
rm -rf $D
