#!/bin/bash
# recheck_seeds.sh [ids...]: re-confirm stored seeded changes against the CURRENT /repo HEAD (fix commits move the tree):
# the demonstration must fail with the change and pass without it. Prints one line per seed. Demonstrations written by
# the later waves assert the worktree path they were written in, so the scratch worktree is created at that path.
IDS=${@:-$(ls /verif/seeded)}
for id in $IDS; do
  d=/verif/seeded/$id
  WT=$(grep -o "/tmp/seed[0-9]*-C[0-9]*" $d/demo.py | head -1); WT=${WT:-/tmp/wt-recheck}
  git -C /repo worktree remove --force $WT 2>/dev/null; rm -rf $WT
  git -C /repo worktree add -q --detach $WT HEAD || { echo "$id WORKTREE-FAILED"; continue; }
  mkdir -p $WT/seed; cp $d/demo.py $WT/seed/demo.py
  cd $WT
  if ! git apply --check $d/patch.diff 2>/dev/null; then echo "$id PATCH-DOES-NOT-APPLY"; cd /verif; git -C /repo worktree remove --force $WT; continue; fi
  timeout 300 /venv/bin/python seed/demo.py >/tmp/recheck.$id.without 2>&1; WO=$?
  git apply $d/patch.diff
  timeout 300 /venv/bin/python seed/demo.py >/tmp/recheck.$id.with 2>&1; W=$?
  if [ $W -ne 0 ] && [ $WO -eq 0 ]; then echo "$id ok (with=$W without=$WO)"; else echo "$id STALE (with=$W without=$WO)"; fi
  cd /verif; git -C /repo worktree remove --force $WT
done
