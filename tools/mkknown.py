#!/venv/bin/python
"""mkknown.py PROPERTY KIND SITE_PATTERN WHAT [--runs N]
Search the property's check for a violation of exactly KIND whose site matches SITE_PATTERN, minimise it, store it under
witnesses/ and append a status=known entry to known_findings.json.  Used only after the violation has been judged a genuine
defect of /repo (see DESIGN.md); never run by a check."""
import concurrent.futures as cf, json, multiprocessing, os, re, sys
os.environ.setdefault("PYTHONHASHSEED", "0")
ROOT = os.path.dirname(os.path.dirname(os.path.abspath(__file__)))
sys.path.insert(0, ROOT)
from simcore.core import setup_repo_path, derive_seed
setup_repo_path()
import logging
logging.disable(logging.CRITICAL)
from simcore import driver
from sims import registry

prop, kind, site_pat, what = sys.argv[1:5]
runs = int(sys.argv[sys.argv.index("--runs") + 1]) if "--runs" in sys.argv else 4000
spec = registry.get_spec(prop)
sim = driver.get_sim(spec.sim)
jobs = [(spec.sim, spec.profiles[i % len(spec.profiles)], "quick", derive_seed(0, prop, "known", i), spec.run_timeout, i)
        for i in range(runs)]
hit = None
with cf.ProcessPoolExecutor(max_workers=16, mp_context=multiprocessing.get_context("fork")) as pool:
    for r in pool.map(driver._worker, jobs, chunksize=16):
        for v in r["violations"]:
            if v["property"] == prop and v["kind"] == kind and re.fullmatch(site_pat, v["site"]):
                if "plan" in r and (hit is None or len(json.dumps(r["plan"])) < len(json.dumps(hit[0]["plan"]))):
                    hit = (r, v)
if hit is None:
    sys.exit(f"no violation {prop} {kind} site~{site_pat} in {runs} runs")
r, v = hit
key = (v["property"], v["kind"], v["site"])
plan, tape, used = driver.minimise(sim, r["plan"], r["tape"], r["seed"], key, spec.run_timeout)
res = driver.execute_plan(sim, plan, tape, r["seed"], spec.run_timeout)
vv = next(x for x in res.violations if x.key() == key)
slug = re.sub(r"[^A-Za-z0-9]+", "_", f"{kind.split('.', 1)[1]}_{v['site']}")[:70]
rel = f"witnesses/{prop}-{slug}.json"
driver.write_replay(os.path.join(ROOT, rel), spec, r["profile"], r["seed"], plan, tape, vv.to_json(), res.digest)
d = json.load(open(os.path.join(ROOT, "known_findings.json")))
d["findings"] = [e for e in d["findings"] if not (e["property"] == prop and e["kind"] == kind and e["site_pattern"] == site_pat
                                                  and e["status"] == "known")]
d["findings"].append({"property": prop, "kind": kind, "site_pattern": site_pat, "status": "known", "what": what, "witness": rel})
json.dump(d, open(os.path.join(ROOT, "known_findings.json"), "w"), indent=1)
print("added", prop, kind, site_pat, rel, "ops", len(plan.get("ops", [])), "method", [c for _, c in plan.get("method", [])])
