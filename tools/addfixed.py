#!/venv/bin/python
"""addfixed.py PROPERTY KIND SITE_PATTERN COMMIT WITNESS WHAT: append a status=fixed entry to known_findings.json."""
import json, os, sys
ROOT = os.path.dirname(os.path.dirname(os.path.abspath(__file__)))
prop, kind, site, commit, witness, what = sys.argv[1:7]
p = os.path.join(ROOT, "known_findings.json")
d = json.load(open(p))
d["findings"].append({"property": prop, "kind": kind, "site_pattern": site, "status": "fixed", "commit": commit, "what": what,
                      "witness": witness, "line": f"fixed: property={prop} {commit} {what}"})
json.dump(d, open(p, "w"), indent=1)
print("added fixed", prop, kind, commit)
