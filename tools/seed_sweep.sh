#!/bin/bash
# seed_sweep.sh "<seeds>" [props...]: run every quick check under several VERIF_SEED values (no evidence written);
# prints one line per (seed, property) and keeps the replays of alarms under /verif/replays/sweep-<seed>/
cd "$(cd "$(dirname "$0")/.." && pwd)"
SEEDS=${1:-"1 2 3"}; shift
PROPS=${@:-$(/venv/bin/python -c "import json; print(' '.join(c['property_id'] for c in json.load(open('MANIFEST.json'))['checks']))")}
for s in $SEEDS; do
  for p in $PROPS; do
    out=$(VERIF_SEED=$s timeout 900 ./check $p --no-evidence 2>&1); rc=$?
    echo "seed=$s $p rc=$rc $(echo "$out" | grep DONE | cut -c1-120)"
    if [ $rc -ne 0 ]; then echo "$out" | grep -E "^  kind|VIOLATION|HARNESS" | cut -c1-330; fi
  done
done
