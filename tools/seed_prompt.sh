#!/bin/bash
# seed_prompt.sh <ID> <tag> [avoid-text]: create a scratch worktree /tmp/seed<tag>-<ID> of /repo HEAD and print the prompt for
# a seeding sub-agent (property text only; nothing from /verif).
ID=$1; TAG=$2; AVOID=$3
WT=/tmp/seed$TAG-$ID
git -C /repo worktree add -q --detach $WT HEAD 2>/dev/null || true
mkdir -p $WT/seed
PROP=$(grep "\"id\": \"$ID\"" /verif/properties.jsonl | jq '{id,title,statement,quantifier,why_tests_cant,anchors}')
cat <<P
You are helping test a verification harness for the Open-Pectus repository (a Python process-control engine that interprets the P-code DSL tick by tick, drives hardware registers and reports to an aggregator over websockets). You work ONLY inside the scratch git worktree $WT (a checkout of the repository; python is /venv/bin/python, which has all dependencies; there is no network). Do not touch /repo or any other directory, and do not read anything under /verif.

Here is a semantic property that the repository is supposed to satisfy:

$PROP

Your task: write a small, realistic change to the repository source (under $WT/openpectus, not the tests) that BREAKS this property while the code still imports and the existing tests still pass. It should look like something a developer could plausibly commit (a refactor, tidy-up, optimisation or small feature) - not sabotage that is obvious at a glance. Crucially, the breakage must need something specific to manifest: a particular interleaving or timing, a crash or fault at a particular point, a multi-step sequence of operations, an unusual input, or two cooperating sites that each look fine alone. A change that ordinary use or the existing tests would expose at once is not useful. $AVOID

Deliverables, all inside $WT/seed/:
1. patch.diff - the change, produced with 'git -C $WT diff -- openpectus > $WT/seed/patch.diff' (source files only, no tests).
2. demo.py - a self-contained demonstration program, run as 'cd $WT && /venv/bin/python seed/demo.py', that inserts $WT at the front of sys.path, asserts that the openpectus package it imported comes from $WT, drives the REAL code (no mocks of the code under test; fakes for hardware/network/clock at the edges are fine; do not use wall-clock sleeps longer than a few seconds in total) and exits 1 when the property is violated, 0 when it holds. It must exit 1 with your change applied and exit 0 on the unchanged tree. Look at openpectus/test for how the project's own tests build engines (e.g. openpectus/test/engine/utility_methods.py EngineTestRunner, create_test_uod), aggregators and dispatchers.
3. meta.json - {"property": "$ID", "summary": "<what the change does and why it breaks the property>", "needs": "<what specifically is needed for it to manifest>", "files": [...], "tests_run": "<commands you ran and their results>"}.

How to check yourself:
- Existing tests must still pass with the change. Relevant suites: '/venv/bin/python -m pytest -q -p no:cacheprovider -n 4 --timeout 300 openpectus/test/engine openpectus/test/lang' (about 2 minutes; test_labjack_hardware collection errors and test_validate_demo_uod fail on the unchanged tree too - ignore those) and '... openpectus/test/aggregator openpectus/test/protocol openpectus/test/lsp'. Run the ones relevant to the files you touch (all of them if unsure). Timing-based tests can be flaky under load: re-run a failing test alone before concluding.
- To switch between changed and unchanged tree use 'git -C $WT apply -R seed/patch.diff' and 'git -C $WT apply seed/patch.diff'. Do NOT use git stash, git checkout of other commits, or git commit (the worktree shares its repository with others).
- Leave the worktree with the change APPLIED when you finish.

Report back (briefly): what the change is, what it needs to manifest, the exit codes of demo.py with and without the change, and the test results. If after a serious attempt you cannot find a change that both passes the tests and breaks the property, say so plainly instead of delivering something weaker.
P
