#!/venv/bin/python
"""mkwitness_idx.py PROPERTY INDEX KIND OUT.json [--seed S] [--tier T]: regenerate run INDEX of the property's check, minimise
it for a violation of KIND and write the replay file (used to keep a witness of a defect before it is repaired)."""
import json, os, random, sys
os.environ.setdefault("PYTHONHASHSEED", "0")
ROOT = os.path.dirname(os.path.dirname(os.path.abspath(__file__)))
sys.path.insert(0, ROOT)
from simcore.core import setup_repo_path, derive_seed
setup_repo_path()
import logging
logging.disable(logging.CRITICAL)
from simcore import driver
from sims import registry
prop, idx, kind, out = sys.argv[1], int(sys.argv[2]), sys.argv[3], sys.argv[4]
base = int(sys.argv[sys.argv.index("--seed") + 1]) if "--seed" in sys.argv else 0
tier = sys.argv[sys.argv.index("--tier") + 1] if "--tier" in sys.argv else "quick"
spec = registry.get_spec(prop)
sim = driver.get_sim(spec.sim)
seed = derive_seed(base, prop, tier, idx)
prof = spec.profiles[idx % len(spec.profiles)]
plan = sim.gen_plan(random.Random(seed), prof, tier)
res = driver.execute_plan(sim, plan, None, seed, spec.run_timeout)
v = next((x for x in res.violations if x.kind == kind), None)
if v is None:
    sys.exit(f"kind {kind} not in {[x.kind for x in res.violations]}")
key = v.key()
mplan, mtape, used = driver.minimise(sim, plan, res.tape, seed, key, spec.run_timeout)
r2 = driver.execute_plan(sim, mplan, mtape, seed, spec.run_timeout)
vv = next(x for x in r2.violations if x.key() == key)
driver.write_replay(os.path.join(ROOT, out), spec, prof, seed, mplan, mtape, vv.to_json(), r2.digest)
print("wrote", out, "ops", len(plan.get("ops", [])), "->", len(mplan.get("ops", [])), vv.to_json()["detail"][:200])
