#!/venv/bin/python
"""mkwitness.py SIM PROPERTY KIND OUT.json  (plan JSON on stdin): execute the plan on the current /repo tree and,
if it yields a violation of that kind, write it as a replay/witness file."""
import json, os, sys
os.environ.setdefault("PYTHONHASHSEED", "0")
ROOT = os.path.dirname(os.path.dirname(os.path.abspath(__file__)))
sys.path.insert(0, ROOT)
from simcore.core import setup_repo_path
setup_repo_path()
import logging
logging.disable(logging.CRITICAL)
from simcore import driver
from sims import registry
simname, prop, kind, out = sys.argv[1:5]
plan = json.load(sys.stdin)
sim = driver.get_sim(simname)
res = driver.execute_plan(sim, plan, [], 0, 120)
if res.harness_error:
    sys.exit("harness error: " + res.harness_error)
v = next((x for x in res.violations if x.property == prop and x.kind == kind), None)
if v is None:
    print("not violated; saw:", [(x.property, x.kind, x.site) for x in res.violations])
    sys.exit(1)
spec = registry.get_spec(prop)
driver.write_replay(os.path.join(ROOT, out), spec, plan.get("profile", "manual"), 0, plan, [], v.to_json(), res.digest)
print("wrote", out, v.to_json())
