#!/venv/bin/python
"""Fill the SEEDED_TABLE / MUTANT_TABLE blocks of DESIGN.md from the sensitivity reports and seeded/*/meta.json."""
import json, os, re
ROOT = os.path.dirname(os.path.dirname(os.path.abspath(__file__)))
p = os.path.join(ROOT, "DESIGN.md")
s = open(p).read()
seeded = {r["patch"]: r for r in json.load(open(os.path.join(ROOT, "sensitivity_seeded.json")))["results"]}
rows = ["| id | property | what the change does | needs, to manifest | caught by (quick tier) |", "|---|---|---|---|---|"]
for d in sorted(os.listdir(os.path.join(ROOT, "seeded"))):
    m = json.load(open(os.path.join(ROOT, "seeded", d, "meta.json")))
    r = seeded.get(f"seeded/{d}/patch.diff", {})
    caught = ", ".join(f"`{k}`" for k in r.get("kinds", [])) if r.get("status") == "caught" else "**" + r.get("status", "not run") + "**"
    note = m.get("strengthened", "")
    rows.append(f"| {d} | {m['property']} | {m['summary'][:260]} | {m['needs'][:230]} | {caught}{(' - ' + note) if note else ''} |")
seeded_table = "\n".join(rows)
mut = json.load(open(os.path.join(ROOT, "sensitivity_report.json")))["results"]
rows = ["| mutant | status | kinds reported |", "|---|---|---|"]
for r in mut:
    rows.append(f"| {os.path.basename(r['patch'])[:-6]} | {r['status']} | {', '.join(r.get('kinds', []))} |")
mutant_table = "\n".join(rows)
def block(name, table, s):
    a, b = f"<!-- {name} -->", f"<!-- /{name} -->"
    if a in s:
        return re.sub(re.escape(a) + r".*?" + re.escape(b), a + "\n" + table + "\n" + b, s, flags=re.S)
    return s.replace(name, a + "\n" + table + "\n" + b)
kf = json.load(open(os.path.join(ROOT, "known_findings.json")))["findings"]
rows = ["| property | commit | kind | what failed |", "|---|---|---|---|"]
for e in kf:
    if e["status"] == "fixed":
        rows.append(f"| {e['property']} | {e['commit']} | `{e['kind']}` | {e['what']} |")
fixed_table = "\n".join(rows)
rows = ["| property | kind | site pattern | what fails |", "|---|---|---|---|"]
for e in kf:
    if e["status"] == "known":
        rows.append(f"| {e['property']} | `{e['kind']}` | `{e['site_pattern'].replace('|', chr(92) + '|')}` | {e['what']} |")
known_table = "\n".join(rows)
rev_path = os.path.join(ROOT, "sensitivity_reverts.json")
rows = ["| re-introduced defect (reverse of fix commit) | status at quick tier | kinds reported / note |", "|---|---|---|"]
notes_path = os.path.join(ROOT, "mutants", "reverts", "notes.json")
rev_notes = json.load(open(notes_path)) if os.path.exists(notes_path) else {}
if os.path.exists(rev_path):
    for r in json.load(open(rev_path))["results"]:
        nm = os.path.basename(r['patch'])[:-6]
        kinds = ', '.join(r.get('kinds', [])) or ("regression witness reproduced" if r['status'] == "caught" else "")
        note = rev_notes.get(nm, "") if r['status'] != "caught" else ""
        rows.append(f"| {nm} | {r['status']} | {kinds}{note} |")
reverts_table = "\n".join(rows)
s = block("FIXED_TABLE", fixed_table, s)
s = block("KNOWN_TABLE", known_table, s)
s = block("REVERTS_TABLE", reverts_table, s)
s = block("SEEDED_TABLE", seeded_table, s)
s = block("MUTANT_TABLE", mutant_table, s)
open(p, "w").write(s)
print("tables filled:", len(seeded), "seeded,", len(mut), "mutants")
