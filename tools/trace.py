#!/venv/bin/python
"""Print the event log of one replay file (SIM-E): tools/trace.py <replay.json> [--tags A,B]"""
import json, sys, os
sys.path.insert(0, "/verif")
os.environ.setdefault("PYTHONHASHSEED", "0")
from simcore.core import setup_repo_path, Tape
setup_repo_path()
from sims import registry
d = json.load(open(sys.argv[1]))
sim = registry.make_sim(d["simulator"])
tape = Tape(seed=d["seed"] ^ 0x5EED, values=d.get("tape"))
res = sim.execute(d["plan"], tape)
w = getattr(sim, "last_world", None)
if w is not None:
    for e in w.events:
        print(e)
    print("--probe")
    for e in w.plog.events:
        print(e)
for v in res.violations:
    print("V", v.kind, v.site, v.step, v.detail)
