#!/venv/bin/python
"""addknown.py PROPERTY KIND SITE_PATTERN WITNESS WHAT: append a status=known entry whose witness file already exists."""
import json, os, sys
ROOT = os.path.dirname(os.path.dirname(os.path.abspath(__file__)))
prop, kind, site, witness, what = sys.argv[1:6]
assert os.path.exists(os.path.join(ROOT, witness)), witness
p = os.path.join(ROOT, "known_findings.json")
d = json.load(open(p))
d["findings"] = [e for e in d["findings"] if not (e["property"] == prop and e["kind"] == kind and e["site_pattern"] == site and e["status"] == "known")]
d["findings"].append({"property": prop, "kind": kind, "site_pattern": site, "status": "known", "what": what, "witness": witness})
json.dump(d, open(p, "w"), indent=1)
print("added known", prop, kind)
