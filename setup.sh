#!/bin/bash
# Offline setup: nothing is installed or built; verify that the machinery imports the tree under /repo
# and that every source of nondeterminism in /repo/openpectus is in the seam inventory.
set -e
cd /verif
mkdir -p evidence replays
PYTHONHASHSEED=0 VERIF_NO_REEXEC=1 /venv/bin/python simcore/cli.py selftest seams
PYTHONHASHSEED=0 VERIF_NO_REEXEC=1 /venv/bin/python - <<'PY'
import sys
sys.path.insert(0, "/verif")
from simcore.core import setup_repo_path
setup_repo_path()
import openpectus, os
assert os.path.abspath(openpectus.__file__).startswith("/repo/"), openpectus.__file__
from sims import registry
for p, spec in sorted(registry.SPECS.items()):
    registry.make_sim(spec.sim)
print("setup ok:", len(registry.SPECS), "checks importable")
PY
