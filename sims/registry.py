"""Property id -> CheckSpec, simulator name -> instance."""
from __future__ import annotations

from simcore.core import HarnessError
from simcore.driver import CheckSpec, Simulator


def make_sim(name: str) -> Simulator:
    if name == "simh":
        from sims.simh import SimH
        return SimH()
    if name == "sime":
        from sims.sime.sim import SimE
        return SimE()
    if name == "simr":
        from sims.simr import SimR
        return SimR()
    if name == "sima":
        from sims.sima import SimA
        return SimA()
    if name == "simt":
        from sims.simt import SimT
        return SimT()
    raise HarnessError(f"unknown simulator {name}")


SPECS: dict[str, CheckSpec] = {}


def _add(spec: CheckSpec) -> None:
    SPECS[spec.property] = spec


_H_ASSUME = ["device faults are exactly those scripted (read/write/connect raise HardwareLayerException)",
             "time is read only through hardware_recovery.time / tags.time (seam self-test)"]

_add(CheckSpec(
    property="C23", sim="simh", profiles=["free", "engine", "faultfree"], runs_quick=40000, runs_thorough=4000000,
    level="fault_enumeration",
    rule=("seeded sequences of 5-60 operations (read, read_batch, write, write cycle, tick xN, advance over both "
          "time-outs, connect) with scripted device outcomes; a case is non-trivial if at least one device fault "
          "fired and >=5 operations ran; distinct = distinct (op kind, fault flag, pre-state) sequence"),
    assumptions=_H_ASSUME, wall_quick=40, wall_thorough=1500))
_add(CheckSpec(
    property="C24", sim="simh", profiles=["free", "engine"], runs_quick=40000, runs_thorough=4000000,
    level="fault_enumeration",
    rule=("seeded sequences of write cycles (all outputs, strictly increasing commanded values, changed and unchanged "
          "mixed), single writes, torn batches, pending-flush failures, outages across both time-outs, reconnects with "
          "and without device memory reset; non-trivial = a write cycle ran after a device fault; distinct = distinct "
          "(op kind, fault flag, pre-state) sequence"),
    assumptions=_H_ASSUME, wall_quick=40, wall_thorough=1500))


_E_ASSUME = ["hardware and UOD callbacks return values in their declared domains (faults are exactly those scripted)",
             "ticks are delivered sequentially by the simulator with the increments of the plan; requests arrive between ticks",
             "observation through tags, emitter events, message builder, request handlers, hardware layer, probe commands"]

for _p, _profiles in {"C06": ["control"], "C07": ["control", "run", "holdpause"], "C08": ["control"], "C09": ["control"],
                      "C15": ["run", "control", "edit", "stoprestart", "cancelforce", "chaos", "exec"],
                      "C16": ["run", "control"], "C36": ["run", "control"],
                      "C01": ["edit", "edit", "macroedit"], "C02": ["exec"], "C03": ["exec", "holdpause"], "C04": ["exec", "cancelforce"], "C05": ["exec", "stoprestart"],
                      "C10": ["stoprestart"], "C11": ["stoprestart", "exec", "inject"], "C12": ["cancelforce"],
                      "C13": ["chaos"], "C14": ["inject", "edit"], "C41": ["exec", "macroedit"], "C39": ["archive"], "C20": ["analyze"]}.items():
    _add(CheckSpec(property=_p, sim="sime", profiles=_profiles, runs_quick=3000, runs_thorough=300000,
                   level="exploration", rule="(filled per property)", assumptions=_E_ASSUME, wall_quick=45,
                   wall_thorough=1500))


_add(CheckSpec(property="C27", sim="simr", profiles=["faulty", "armed", "faulty", "faultfree"], runs_quick=800, runs_thorough=40000,
               level="fault_enumeration", rule="(filled)", assumptions=["(filled)"], wall_quick=50, wall_thorough=1500,
               run_timeout=120))


for _p, _profiles, _lvl in [("C28", ["runs"], "fault_enumeration"), ("C29", ["runs"], "exploration"),
                            ("C30", ["runs"], "exploration"), ("C31", ["saves"], "exploration"),
                            ("C35", ["errorlog"], "exploration"), ("C37", ["users"], "exploration"),
                            ("C38", ["ids"], "exploration")]:
    _add(CheckSpec(property=_p, sim="sima", profiles=_profiles, runs_quick=1500, runs_thorough=200000, level=_lvl,
                   rule="(filled)", assumptions=["(filled)"], wall_quick=50, wall_thorough=1500, run_timeout=60))


_add(CheckSpec(property="C40", sim="simt", profiles=["mixed", "mixed", "locked"], runs_quick=2400, runs_thorough=120000,
               level="exploration", rule="(filled)", assumptions=["(filled)"], wall_quick=50, wall_thorough=1500, run_timeout=90))


def _finish():
    from sims import rules
    for pid, spec in SPECS.items():
        spec.rule = rules.RULES[pid]
        spec.assumptions = rules.ASSUMPTIONS[spec.sim]


_finish()


def get_spec(prop: str) -> CheckSpec:
    if prop not in SPECS:
        raise HarnessError(f"no check registered for {prop}")
    return SPECS[prop]
