"""SIM-T: two real threads (the ticking thread and one request thread) under a baton-passing scheduler (C40).

Everything of SIM-E is real. Simulated: who runs. Each thread runs only while it holds the baton; a sys.settrace
line hook in the repo's engine / interpreter files is the pre-emption point; the plan names the points at which
the baton changes hands. engine._lock is replaced by a scheduler-aware lock so that a thread that would block on it
hands the baton to the owner instead of dead-locking.
"""
from __future__ import annotations

import os
import random
import sys
import threading
from typing import Any, Iterator

from simcore.core import HarnessError, Recorder, RunResult, Tape, repo_root, stable_hash
from simcore.driver import Simulator

from sims.sime.world import EngineWorld
from sims.sime import gen

TRACE_FILES = ("engine/engine.py", "engine/method_manager.py", "engine/command_manager.py", "lang/exec/pinterpreter.py",
               "lang/exec/tracking.py", "lang/exec/hotswap.py", "engine/internal_commands.py",
               "engine/internal_commands_impl.py", "lang/exec/runlog.py", "lang/model/ast.py")


# functions whose entry marks a phase boundary of Engine.tick (pre-emption right there is the interesting schedule)
PHASES = ("update_calculated_tags", "execute_commands", "notify_tag_updates", "write_process_image", "_execute_command",
          "_execute_uod_command", "_execute_internal_command", "visit_children", "_visit_children", "collect_tag_updates")


class Scheduler:
    def __init__(self, switch_points: dict[str, list[int]]):
        self.cv = threading.Condition()
        self.current: str | None = None
        self.finished: set[str] = set()
        self.count: dict[str, int] = {"T": 0, "R": 0}
        self.switch_points = {k: set(v) for k, v in switch_points.items()}
        self.other = {"T": "R", "R": "T"}
        self.switches = 0
        self.deadlock = False
        self.phase_index: dict[str, int] = {}     # first traced-line index of T inside a named function of the tick

    def start(self, first: str):
        with self.cv:
            self.current = first
            self.cv.notify_all()

    def wait_turn(self, me: str):
        with self.cv:
            while self.current != me:
                if not self.cv.wait(timeout=20):
                    self.deadlock = True
                    raise HarnessError("baton wait timed out")

    def point(self, me: str):
        n = self.count[me]
        self.count[me] = n + 1
        if n in self.switch_points.get(me, ()):
            self.yield_to_other(me)

    def yield_to_other(self, me: str):
        o = self.other[me]
        if o in self.finished:
            return
        with self.cv:
            self.current = o
            self.switches += 1
            self.cv.notify_all()
            while self.current != me:
                if not self.cv.wait(timeout=20):
                    self.deadlock = True
                    raise HarnessError("baton wait timed out")

    def finish(self, me: str):
        with self.cv:
            self.finished.add(me)
            o = self.other[me]
            if o not in self.finished:
                self.current = o
            self.cv.notify_all()


class SimLock:
    """Replacement for engine._lock: a blocked acquirer hands the baton to the owner."""

    def __init__(self, sched: Scheduler, names: dict[int, str], handoff: list[bool] | None = None,
                 timeouts: list[bool] | None = None):
        self.timeouts = list(timeouts or [])   # per contended acquire WITH a timeout: does the timeout elapse first?
        self.timed_out = 0
        self.sched = sched
        self.names = names
        self.owner: str | None = None
        self.contended = 0
        self.waiters: set[str] = set()
        self.handoff = list(handoff or [])    # per contended release: does the blocked waiter get the lock at once?
        self.handoffs_done = 0

    def acquire(self, blocking=True, timeout=-1):
        me = self.names.get(threading.get_ident(), "main")
        first = True
        while self.owner is not None and self.owner != me:
            self.contended += 1
            if me == "main":
                raise HarnessError("lock held outside the scheduled section")
            if not blocking:
                return False
            if first and timeout is not None and timeout >= 0:
                # how long the owner keeps the lock against the waiter's timeout is wall-clock: in the simulation it is
                # a decision of the plan (a slow hardware write makes a tick outlast any timeout)
                if (self.timeouts.pop(0) if self.timeouts else False):
                    self.timed_out += 1
                    self.waiters.discard(me)
                    return False
            first = False
            self.waiters.add(me)
            self.sched.yield_to_other(me)
        self.waiters.discard(me)
        self.owner = me
        return True

    def release(self):
        if self.owner is None:
            raise RuntimeError("release unlocked lock")      # as threading.Lock
        me = self.owner                                      # as threading.Lock: any thread may release it
        self.owner = None
        # a thread blocked on the lock is woken by the release: whether it wins the lock before the releasing thread
        # goes on is a scheduling decision of the plan (real locks are not fair, both outcomes happen)
        if self.waiters and me is not None and me != "main":
            take = self.handoff.pop(0) if self.handoff else True
            if take:
                self.handoffs_done += 1
                self.sched.yield_to_other(me)

    def __enter__(self):
        self.acquire()
        return self

    def __exit__(self, *a):
        self.release()
        return False

    def locked(self):
        return self.owner is not None


def _digest(w: EngineWorld, reply) -> tuple:
    ms = w.method_state()
    try:
        rl = tuple((it.name, str(it.state)) for it in w.runlog().items)
    except Exception as ex:
        rl = ("runlog raised", type(ex).__name__)
    return (reply, tuple((e[1], e[2]) for e in w.effects), tuple(sorted(ms.started_line_ids)), tuple(sorted(ms.executed_line_ids)),
            tuple(sorted(ms.failed_line_ids)), w.state, str(w.tag("Method Status")), rl, tuple(sorted(w.uod.command_instances)),
            tuple(c for _, c in w.method_lines))


class SimT(Simulator):
    name = "simt"
    components_real = ["everything of SIM-E (Engine, CommandManager, MethodManager, PInterpreter, Tracking, request handlers)",
                       "two OS threads: one runs Engine.tick, one runs a request through EngineMessageHandlers"]
    components_stub = ["thread scheduling: baton passing at sys.settrace line events in the engine / interpreter files",
                       "engine._lock -> scheduler-aware lock (same mutual exclusion, yields instead of blocking)",
                       "hardware, clock, uuid as in SIM-E"]

    def gen_plan(self, rng: random.Random, profile: str, tier: str) -> dict:
        feats = gen.pick_features(rng, never=["simulate", "pause", "hold"], p=0.4)
        method = gen.gen_method(rng, feats, max_lines=rng.randint(3, 12), time_scale=0.5)
        prefix = [["user", "Start"], ["tick", rng.choice([2, 3, 4, 6, 9, 14]), 0.1]]
        if rng.random() < 0.3:
            prefix += [["pv", "PV1", rng.choice([0.0, 4.0, 10.0])], ["tick", rng.choice([1, 3]), 0.1]]
        stopping = rng.random() < 0.2
        if stopping:
            # a Stop / Restart is under way: the tick that is interleaved is its first, second or third tick (the one
            # that renews the interpreter and the command manager is the second)
            prefix += [["user", rng.choice(["Stop", "Stop", "Restart"])], ["tick", rng.choice([0, 1, 1, 2]), 0.1]]
        r = rng.random()
        if profile == "locked":
            r = 0.9 + 0.1 * rng.random()
        if r < 0.3:
            req = ["edit", "append", 0, [f"Mark: a{rng.randint(500, 599)}"]]
        elif r < 0.4:
            req = ["edit", "change_future", rng.randint(0, 9), f"Mark: c{rng.randint(600, 699)}"]
        elif r < 0.6:
            req = ["inject", rng.choice(["Mark: i701", "Set1: 702 %", "Ramp: 3", "Mark: i703\nMark: i704"])]
        elif r < 0.85:
            req = ["user", rng.choice(["Pause", "Hold", "Stop", "Restart", "Unpause"])]
        if stopping and rng.random() < 0.7:
            req = ["user", rng.choice(["Start", "Start", "Pause", "Spin"])]
        else:
            req = [rng.choice(["cancel", "force"]), rng.randint(0, 20), "offered"]
        # fractions of the tick's / request's traced lines at which the baton changes hands
        k = rng.random()
        if k < 0.6:
            switches = {"T": [rng.random()], "R": []}                 # R runs whole, in the middle of the tick
        elif k < 0.85:
            switches = {"T": [rng.random()], "R": [rng.random()]}     # R split around a piece of the tick
        else:
            switches = {"T": sorted([rng.random(), rng.random()]), "R": [rng.random()]}
        handoff = [rng.random() < 0.75 for _ in range(4)]
        if rng.random() < 0.35:
            # pre-empt the tick exactly at (or a few lines around) the entry of one of its phases
            switches = dict(switches, T_phase=[rng.choice(PHASES[:7]), rng.choice([-2, -1, 0, 0, 1, 2])])
        return {"cfg": {"wellformed": True, "runlog_every": 1000}, "method": method, "prefix": prefix, "request": req,
                "switch_fractions": switches, "handoff": handoff, "timeouts": [rng.random() < 0.5 for _ in range(3)], "ops": []}

    def shrink(self, plan: dict) -> Iterator[dict]:
        m = plan["method"]
        for i in range(len(m)):
            ind = len(m[i][1]) - len(m[i][1].lstrip(" "))
            j = i + 1
            while j < len(m) and (m[j][1].strip() == "" or len(m[j][1]) - len(m[j][1].lstrip(" ")) > ind):
                j += 1
            from sims.sime.sim import _bodies_intact
            if _bodies_intact(m[:i] + m[j:]):
                yield dict(plan, method=m[:i] + m[j:])
        sf = plan["switch_fractions"]
        if sf["R"]:
            yield dict(plan, switch_fractions={"T": sf["T"], "R": []})
        if len(sf["T"]) > 1:
            yield dict(plan, switch_fractions={"T": sf["T"][:1], "R": sf["R"]})

    def sample(self, plan: dict) -> Any:
        return {"method": [c for _, c in plan["method"]], "prefix": plan["prefix"], "request": plan["request"],
                "switch_fractions": plan["switch_fractions"]}

    # ------------------------------------------------------------------ execution
    def _prefix_world(self, plan, res, rec) -> EngineWorld:
        w = EngineWorld(res, rec)
        w.set_method_text("", lines=[tuple(x) for x in plan["method"]])
        for op in plan["prefix"]:
            if op[0] == "user":
                w.user_command(op[1])
            elif op[0] == "tick":
                for _ in range(op[1]):
                    w.tick(op[2])
            elif op[0] == "pv":
                w.hw.inputs[op[1]] = op[2]
        return w

    def _resolve(self, w: EngineWorld, req):
        """The concrete request is fixed from the state after the prefix, before any interleaving starts."""
        from sims.sime import ops_ext
        if req[0] in ("user", "inject"):
            return tuple(req)
        return ops_ext.resolve(w, req)

    def _do_request(self, w: EngineWorld, creq) -> Any:
        if creq is None:
            return None
        k = creq[0]
        if k == "user":
            return w.user_command(creq[1])
        if k == "inject":
            return w.inject(creq[1])
        if k == "edit":
            return type(w.set_method_text("", lines=[tuple(x) for x in creq[1]])).__name__
        if k == "cancel":
            return w.cancel(creq[1])
        if k == "force":
            return w.force(creq[1])
        raise HarnessError(f"unknown request {creq}")

    def _serial(self, plan, order: str) -> tuple:
        res, rec = RunResult(), Recorder()
        w = self._prefix_world(plan, res, rec)
        try:
            creq = self._resolve(w, plan["request"])
            if order == "RT":
                reply = self._do_request(w, creq)
                w.tick(0.1)
            else:
                w.tick(0.1)
                reply = self._do_request(w, creq)
            for _ in range(30):
                w.tick(0.1)
            exc = tuple(e[1] for e in w.exceptions)
            return _digest(w, reply) + (exc,)
        finally:
            w.close()

    def execute(self, plan: dict, tape: Tape) -> RunResult:
        res = RunResult()
        rec = Recorder()
        serial = {o: self._serial(plan, o) for o in ("RT", "TR")}
        # dry run: count traced lines of the tick and of the request (serial RT order, separate world)
        n_t, n_r = self._count_points(plan)
        sf = plan["switch_fractions"]
        sp = {"T": sorted({min(n_t - 1, int(f * n_t)) for f in sf["T"]}) if n_t else [],
              "R": sorted({min(n_r - 1, int(f * n_r)) for f in sf["R"]}) if n_r else []}
        ph = sf.get("T_phase")
        if ph and n_t and ph[0] in getattr(self, "_phase_index", {}):
            sp["T"] = sorted(set(sp["T"][1:]) | {max(0, min(n_t - 1, self._phase_index[ph[0]] + ph[1]))})
            res.probe("phase_boundary_preemption")
        w = self._prefix_world(plan, res, rec)
        try:
            out = self._interleaved(w, plan, sp, res)
            for _ in range(30):
                w.tick(0.1)
            exc = tuple(e[1] for e in w.exceptions)
            got = _digest(w, out["reply"]) + (exc,)
        finally:
            w.close()
        res.probe("traced_lines_tick", n_t)
        res.probe("traced_lines_request", n_r)
        res.probe("baton_switches", out["switches"])
        res.probe("lock_contended", out["contended"])
        res.probe("lock_handoffs_to_waiter", out["handoffs"])
        if out.get("timed_out"):
            res.fault("lock_acquire_timed_out", out["timed_out"])
        rec.log("switch_points", sp, n_t, n_r, out["switches"])
        rec.log("got", stable_hash(got), "RT", stable_hash(serial["RT"]), "TR", stable_hash(serial["TR"]))
        kind = plan["request"][0] + (":" + str(plan["request"][1]) if plan["request"][0] in ("edit", "user") else "")
        if out["errors"]:
            res.add("C40", "C40.exception_under_interleaving", kind, 0,
                    f"{out['errors'][:2]} with switch points {sp} of ({n_t}, {n_r}) traced lines")
        elif got != serial["RT"] and got != serial["TR"]:
            names = ["reply", "effects", "started", "executed", "failed", "state", "method_status", "runlog", "instances",
                     "method", "exceptions"]
            d_rt = [names[i] for i, (a, b) in enumerate(zip(got, serial["RT"])) if a != b]
            d_tr = [names[i] for i, (a, b) in enumerate(zip(got, serial["TR"])) if a != b]
            i0 = names.index(d_rt[0])
            res.add("C40", "C40.outcome_matches_no_serial_order", kind, 0,
                    f"request {plan['request']} interleaved at {sp} of ({n_t}, {n_r}) traced lines: differs from request-first "
                    f"in {d_rt} and from tick-first in {d_tr}; e.g. {names[i0]}: interleaved {got[i0]!r} vs request-first "
                    f"{serial['RT'][i0]!r}")
        else:
            res.probe("matched_RT" if got == serial["RT"] else "matched_TR")
        res.fault("preemption_inside_tick", len(sp["T"]))
        res.fault("preemption_inside_request", len(sp["R"]))
        res.digest = rec.digest()
        res.steps = n_t + n_r
        res.sim_seconds = 3.1
        res.fingerprint = stable_hash([kind, sp, [c.strip().split(":")[0] for _, c in plan["method"]]])
        res.nontrivial = n_t > 20 and n_r > 3
        res.state(kind, tuple(sp["T"]), tuple(sp["R"]))
        return res

    def _count_points(self, plan) -> tuple[int, int]:
        res, rec = RunResult(), Recorder()
        w = self._prefix_world(plan, res, rec)
        try:
            out = self._interleaved(w, plan, {"T": [], "R": []}, res, first="R")
            self._phase_index = out["phase_index"]
            return out["count"]["T"], out["count"]["R"]
        finally:
            w.close()

    def _interleaved(self, w: EngineWorld, plan, sp, res, first="T") -> dict:
        sched = Scheduler(sp)
        names: dict[int, str] = {}
        lock = SimLock(sched, names, plan.get("handoff"), plan.get("timeouts"))
        w.engine._lock = lock
        root = os.path.join(repo_root(), "openpectus") + os.sep
        files = tuple(root + f for f in TRACE_FILES)
        out: dict[str, Any] = {"reply": None, "errors": []}

        def make_tracer(me):
            def local(frame, event, arg):
                if event == "line":
                    sched.point(me)
                return local

            def tracer(frame, event, arg):
                if event == "call" and frame.f_code.co_filename in files:
                    if me == "T" and frame.f_code.co_name in PHASES:
                        sched.phase_index.setdefault(frame.f_code.co_name, sched.count["T"])
                    return local
                return None
            return tracer

        def run(me, fn):
            names[threading.get_ident()] = me
            try:
                sched.wait_turn(me)
                sys.settrace(make_tracer(me))
                try:
                    r = fn()
                finally:
                    sys.settrace(None)
                if me == "R":
                    out["reply"] = r
            except BaseException as ex:    # noqa
                out["errors"].append(f"{me}: {type(ex).__name__}: {ex}")
            finally:
                sched.finish(me)

        n_exc = len(w.exceptions)
        tt = threading.Thread(target=run, args=("T", lambda: w.tick(0.1)), daemon=True)
        creq = self._resolve(w, plan["request"])
        tr = threading.Thread(target=run, args=("R", lambda: self._do_request(w, creq)), daemon=True)
        tt.start()
        tr.start()
        sched.start(first)
        tt.join(30)
        tr.join(30)
        if tt.is_alive() or tr.is_alive() or sched.deadlock:
            raise HarnessError("interleaved threads did not finish")
        w.engine._lock = threading.Lock()
        for e in w.exceptions[n_exc:]:
            out["errors"].append(f"{e[1]}: {e[2]}")
        out["switches"] = sched.switches
        out["contended"] = lock.contended
        out["handoffs"] = lock.handoffs_done
        out["timed_out"] = lock.timed_out
        out["count"] = dict(sched.count)
        out["phase_index"] = dict(sched.phase_index)
        return out
