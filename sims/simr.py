"""SIM-R: the engine runner under a virtual-time asyncio loop and a faulty simulated link (C27).

Real: EngineRunner (AsyncTimer, steady_state_send_messages, buffer_messages, _send_buffered_batch, state machine),
EngineDispatcher.assign_sequence_number, EngineMessageBuilder, Engine (SIM-E world, ticked from a loop task),
protocol.serialization on every delivered message.
Stub: transport (connect_async / send_async / disconnect_async of a dispatcher subclass on a simulated link) and the
far end (a recording endpoint that acknowledges).
"""
from __future__ import annotations

import asyncio
import json
import random
from typing import Any, Iterator

from simcore.clock import patched
from simcore.core import Recorder, RunResult, Tape, stable_hash
from simcore.driver import Simulator
from simcore import vloop

import openpectus.engine.engine_runner as m_runner
import openpectus.protocol.aggregator_messages as AM
import openpectus.protocol.engine_messages as EM
from openpectus.engine.engine_runner import EngineRunner
from openpectus.protocol.engine_dispatcher import EngineDispatcher
from openpectus.protocol.exceptions import ProtocolNetworkException
from openpectus.protocol.serialization import serialize, deserialize

from sims.sime.world import EngineWorld

BUFFER_STATES = ("Failed", "Disconnected", "Reconnecting", "CatchingUp")


def _wire_default(o):
    if isinstance(o, (set, frozenset)):
        return sorted(o)
    return str(o)


class RandomProxy:
    """Replaces engine_runner.random: the reconnect back-off comes from the decision tape."""

    def __init__(self, tape: Tape):
        self.tape = tape

    def uniform(self, a: float, b: float) -> float:
        return a + (b - a) * self.tape.draw("backoff", 20) / 19.0


class Net:
    def __init__(self, tape: Tape, rec: Recorder, res: RunResult, loop):
        self.tape, self.rec, self.res, self.loop = tape, rec, res, loop
        self.up = True
        self.conn_alive = False
        self.connfail = 0
        self.sendloss = 0
        self.ackloss = 0
        self.lat_lo, self.lat_hi = 0.002, 0.03
        self.hung = 0                   # sends hanging right now
        self.stalls: list[dict] = []    # half-open connection: the next send hangs for `dur` s and then fails
        self.armed: list[dict] = []     # state-triggered faults: fail the n-th send made while the runner is in a state
        self.runner = None
        self.attempts: dict[int, list[tuple[float, bool]]] = {}      # id(msg) -> [(time, sender saw success)]
        self.deliveries: list[tuple[float, int, str, int, Any]] = []   # time, id(msg), type, seq, run_id
        self.keep: list[Any] = []

    def latency(self) -> float:
        k = self.tape.draw("lat", 16)
        if k == 15:
            return 0.5
        return self.lat_lo + (self.lat_hi - self.lat_lo) * k / 14.0


class SimEngineDispatcher(EngineDispatcher):
    def __init__(self, builder, net: Net):
        super().__init__(builder, "sim:0", False, {"uod_name": "ProbeUod", "uod_author_name": "v", "uod_author_email": "v",
                                                  "uod_filename": "f", "location": "l"})
        self.net = net

    async def connect_async(self):
        net = self.net
        await asyncio.sleep(net.latency())
        if not net.up or net.connfail > 0:
            if net.connfail > 0:
                net.connfail -= 1
                net.res.fault("connect_refused")
            else:
                net.res.fault("connect_while_link_down")
            net.rec.log("connect.fail", round(net.loop.time(), 4))
            raise ProtocolNetworkException("sim: connect failed")
        self._engine_id = "eng_1"
        net.conn_alive = True
        net.rec.log("connect.ok", round(net.loop.time(), 4))

    async def disconnect_async(self):
        self.net.conn_alive = False
        self.net.rec.log("disconnect", round(self.net.loop.time(), 4))

    async def send_async(self, message):
        net = self.net
        if self._engine_id is None:
            # as the real send_async: not a network error, so _post_async does not catch it
            from openpectus.protocol.exceptions import ProtocolException
            net.res.probe("send_without_engine_id")
            raise ProtocolException("Engine did not have engine_id yet")
        message.engine_id = self._engine_id
        self.assign_sequence_number(message)
        mid = id(message)
        net.keep.append(message)
        await asyncio.sleep(net.latency())

        def fail(kind, kill=True):
            net.attempts.setdefault(mid, []).append((net.loop.time(), False))
            net.res.fault(kind)
            net.rec.log("send.fail", kind, type(message).__name__, message.sequence_number, round(net.loop.time(), 4))
            if kill:
                net.conn_alive = False
            raise ProtocolNetworkException("sim: " + kind)
        if net.stalls and net.up and net.conn_alive:
            # the connection has gone half-open: this call hangs until the RPC layer gives up on it, every other call fails
            # at once. By the time the hung call raises, the runner may have been through a whole recovery on a NEW
            # connection, which the late failure of the old call does not touch.
            st = net.stalls.pop(0)
            net.conn_alive = False
            net.res.probe("send_hung_on_half_open_connection")
            net.rec.log("send.hang", type(message).__name__, message.sequence_number, st["dur"], round(net.loop.time(), 4))
            state0 = net.runner.state if net.runner is not None else None
            net.hung += 1
            try:
                await asyncio.sleep(st["dur"])
            finally:
                net.hung -= 1
            if net.runner is not None and net.runner.state != state0:
                net.res.probe(f"hung_send_failed_in_other_state_{net.runner.state}")
            fail("send_hung_then_failed", kill=False)
        if not net.up:
            fail("send_while_link_down")
        if not net.conn_alive:
            fail("send_on_dead_connection")
        trig = None
        for a in net.armed:
            if net.runner is not None and net.runner.state == a["state"] and \
                    (a["type"] is None or a["type"] == type(message).__name__):
                a["seen"] += 1
                if a["seen"] == a["nth"] and trig is None:
                    trig = a
        if trig is not None:
            net.armed.remove(trig)
            if trig["kind"] == "sendloss":
                fail(f"send_lost_in_{trig['state']}")
            net.ackloss += 1
            net.res.fault(f"ack_loss_armed_in_{trig['state']}")
        if net.sendloss > 0:
            net.sendloss -= 1
            fail("send_lost_before_delivery")
        # delivery: the far end deserialises what the wire carries
        wire = json.dumps(serialize(message), default=_wire_default)   # the RPC layer encodes with pydantic
        back = deserialize(json.loads(wire))
        net.deliveries.append((net.loop.time(), mid, type(back).__name__, back.sequence_number, getattr(back, "run_id", None)))
        net.rec.log("deliver", type(back).__name__, back.sequence_number, round(net.loop.time(), 4))
        if net.ackloss > 0:
            net.ackloss -= 1
            fail("ack_lost_after_delivery")
        net.attempts.setdefault(mid, []).append((net.loop.time(), True))
        return AM.SuccessMessage()


class SimR(Simulator):
    name = "simr"
    components_real = ["openpectus.engine.engine_runner.EngineRunner (all tasks and the recovery state machine)",
                       "EngineDispatcher.assign_sequence_number", "EngineMessageBuilder", "Engine (SIM-E world)",
                       "protocol.serialization (every delivered message)"]
    components_stub = ["transport: connect_async/send_async/disconnect_async on a simulated link with latency and faults",
                       "far end: recording endpoint that acknowledges", "asyncio event loop: virtual time",
                       "engine_runner.random (back-off from the decision tape), engine_runner.time"]

    def _gen_armed(self, rng: random.Random) -> dict:
        """Faults placed inside the recovery protocol: an outage, then the n-th send of a drawn kind fails (or loses its
        acknowledgement) while the runner is catching up / has just reconnected; optionally a second round."""
        method = [["L000", "Mark: a"], ["L001", "Wait: 2s"], ["L002", "Mark: b"], ["L003", "Ramp: 5"], ["L004", "Mark: c"]]
        ops: list[list] = []
        t = 1.0
        if rng.random() < 0.8:
            ops.append([t, "user", "Start"])
        for _ in range(rng.randint(1, 3)):
            t += rng.choice([0.5, 2.0, 4.0])
            for _ in range(rng.randint(1, 2)):
                ops.append([round(t, 3), "arm", rng.choice(["CatchingUp", "CatchingUp", "CatchingUp", "Reconnected", "Reconnecting"]),
                            rng.choice([1, 1, 2, 2, 3, 4, 7]), rng.choice(["sendloss", "sendloss", "ackloss"]),
                            rng.choice([None, None, "MethodMsg", "MethodMsg", "UodInfoMsg", "TagsUpdatedMsg", "RunStoppedMsg",
                                        "RunStartedMsg", "MethodStateMsg"])])
            t += 0.1
            if rng.random() < 0.3:
                ops.append([round(t, 3), "stall", rng.choice([3.0, 8.0, 20.0, 45.0])])
            ops.append([round(t, 3), "link", "down"])
            if rng.random() < 0.5:
                ops.append([round(t + 0.2, 3), "user", rng.choice(["Stop", "Start", "Restart", "Pause"])])
            t += rng.choice([0.5, 3.0, 12.0])
            ops.append([round(t, 3), "link", "up"])
            t += rng.choice([8.0, 15.0, 25.0])
        t_end = t + 5.0
        return {"cfg": {"faults_stop": round(t_end, 3), "settle": 75.0}, "method": method, "ops": ops}

    def gen_plan(self, rng: random.Random, profile: str, tier: str) -> dict:
        if profile == "armed":
            return self._gen_armed(rng)
        faulty = profile != "faultfree"
        ops: list[list] = []
        t = 1.0
        horizon = rng.choice([20.0, 40.0, 80.0])
        method = [["L000", "Mark: a"], ["L001", "Wait: 2s"], ["L002", "Mark: b"], ["L003", "Ramp: 5"], ["L004", "Mark: c"]]
        running = False
        while t < horizon:
            t += rng.choice([0.05, 0.2, 0.5, 1.0, 2.5, 6.0])
            r = rng.random()
            if r < 0.22:
                if not running:
                    ops.append([round(t, 3), "user", "Start"])
                    running = True
                else:
                    ops.append([round(t, 3), "user", rng.choice(["Stop", "Stop", "Restart", "Pause", "Unpause"])])
                    if ops[-1][2] == "Stop":
                        running = False
            elif not faulty:
                continue
            elif r < 0.40:
                ops.append([round(t, 3), "link", "down"])
                t += rng.choice([0.3, 2.0, 8.0, 25.0, 130.0])
                ops.append([round(t, 3), "link", "up"])
            elif r < 0.55:
                ops.append([round(t, 3), "sendloss", rng.randint(1, 3)])
            elif r < 0.70:
                ops.append([round(t, 3), "ackloss", rng.randint(1, 3)])
            elif r < 0.80:
                ops.append([round(t, 3), "connfail", rng.randint(1, 4)])
            elif r < 0.83:
                ops.append([round(t, 3), "latency", 0.05, rng.choice([0.2, 0.6])])
            elif r < 0.87:
                ops.append([round(t, 3), "stall", rng.choice([1.0, 3.0, 8.0, 20.0, 45.0])])
            elif r < 0.95:
                # a fault placed inside the recovery protocol: the n-th send (optionally of one message type) made
                # while the runner is in the given state fails or loses its acknowledgement
                ops.append([round(t, 3), "arm", rng.choice(["CatchingUp", "CatchingUp", "CatchingUp", "Reconnected", "Connected"]),
                            rng.randint(1, 6), rng.choice(["sendloss", "sendloss", "ackloss"]),
                            rng.choice([None, None, "MethodMsg", "UodInfoMsg", "TagsUpdatedMsg", "RunStoppedMsg"])])
        if running and rng.random() < 0.7:
            t += 1.0
            ops.append([round(t, 3), "user", "Stop"])
        t_end = max(t, horizon) + 1.0
        return {"cfg": {"faults_stop": round(t_end, 3), "settle": 75.0}, "method": method, "ops": ops}

    def shrink(self, plan: dict) -> Iterator[dict]:
        ops = plan["ops"]
        for i, op in enumerate(ops):
            if op[1] in ("sendloss", "ackloss", "connfail") and op[2] > 1:
                yield dict(plan, ops=ops[:i] + [[op[0], op[1], 1]] + ops[i + 1:])
        # compress time: move everything earlier
        if ops:
            first = ops[0][0]
            if first > 1.5:
                d = first - 1.0
                yield dict(plan, ops=[[round(o[0] - d, 3)] + o[1:] for o in ops],
                           cfg=dict(plan["cfg"], faults_stop=round(plan["cfg"]["faults_stop"] - d, 3)))

    def sample(self, plan: dict) -> Any:
        return {"cfg": plan["cfg"], "ops": [" ".join(str(x) for x in o) for o in plan["ops"]]}

    # ------------------------------------------------------------------ execution
    def execute(self, plan: dict, tape: Tape) -> RunResult:
        res = RunResult()
        rec = Recorder()
        loop = vloop.new_loop()
        world = None
        try:
            world = EngineWorld(res, rec)
            with patched((m_runner, "random", RandomProxy(tape)), (m_runner, "time", world.tp)):
                loop.run_until_complete(self._main(world, plan, res, rec, tape, loop))
        finally:
            vloop.close_loop(loop)
            if world is not None:
                world.close()
        res.digest = rec.digest()
        return res

    async def _main(self, w: EngineWorld, plan: dict, res: RunResult, rec: Recorder, tape: Tape, loop) -> None:
        net = Net(tape, rec, res, loop)
        disp = SimEngineDispatcher(w.builder, net)
        w.set_method_text("", lines=[tuple(x) for x in plan["method"]])
        runner = EngineRunner(disp, w.builder, w.engine.emitter, loop)
        net.runner = runner
        produced: list[dict] = []
        by_id: dict[int, dict] = {}

        def note(message, how):
            mid = id(message)
            if mid not in by_id:
                d = {"id": mid, "type": type(message).__name__, "t": loop.time(), "state": runner.state, "how": how,
                     "run_id": getattr(message, "run_id", None), "msg": message, "n": len(produced)}
                by_id[mid] = d
                produced.append(d)
                rec.log("produce", d["type"], how, runner.state, round(loop.time(), 4))
            return by_id[mid]

        orig_post = runner._post_async
        orig_buffer = runner._buffer_message

        async def post(message):
            note(message, "post")
            return await orig_post(message)

        def buffer(message):
            d = note(message, "buffer")
            d["buffered"] = True
            return orig_buffer(message)
        runner._post_async = post          # instance attributes shadow the methods for internal calls too
        runner._buffer_message = buffer

        steady_samples = 0

        async def engine_ticker():
            while True:
                await asyncio.sleep(0.1)
                w.tick(0.1)

        async def monitor():
            nonlocal steady_samples
            while True:
                await asyncio.sleep(0.1)
                st = runner.state
                res.state(st, min(len(runner._message_buffer), 5), net.up, net.conn_alive)
                if st in ("Connected", "Reconnected"):
                    steady_samples += 1
                    if steady_samples >= 3 and len(runner._message_buffer) > 0:
                        res.add("C27", "C27.buffer_not_empty_in_steady_state",
                                f"{st}:{'+'.join(sorted({type(m).__name__ for m in runner._message_buffer}))}", int(loop.time() * 10),
                                f"runner in {st} for {steady_samples} runner ticks with {len(runner._message_buffer)} "
                                f"message(s) still in the buffer: "
                                f"{[type(m).__name__ for m in runner._message_buffer[:4]]}")
                        # a message that was POSTED and came back from a failed send is another matter than one the
                        # (known) still-running buffer loop put there: it gets its own site
                        sent = [m for m in runner._message_buffer if by_id.get(id(m), {}).get("how") == "post"]
                        if sent:
                            res.add("C27", "C27.buffer_not_empty_in_steady_state",
                                    f"{st}:failed_send:{'+'.join(sorted({type(m).__name__ for m in sent}))}", int(loop.time() * 10),
                                    f"runner in {st} for {steady_samples} runner ticks while {len(sent)} message(s) whose send "
                                    f"failed wait in the buffer: {[type(m).__name__ for m in sent[:4]]}")
                else:
                    steady_samples = 0

        tasks = [asyncio.ensure_future(runner.run()), asyncio.ensure_future(engine_ticker()),
                 asyncio.ensure_future(monitor())]
        fp = []
        try:
            for op in plan["ops"]:
                t = op[0]
                if t > loop.time():
                    await asyncio.sleep(t - loop.time())
                k = op[1]
                rec.log("op", round(loop.time(), 3), *op[1:])
                fp.append(k[:2] + str(op[2])[:2])
                if k == "user":
                    w.user_command(op[2])
                elif k == "link":
                    net.up = op[2] == "up"
                    if not net.up:
                        net.conn_alive = False
                        res.fault("link_down")
                elif k == "sendloss":
                    net.sendloss += op[2]
                elif k == "ackloss":
                    net.ackloss += op[2]
                elif k == "connfail":
                    net.connfail += op[2]
                elif k == "latency":
                    net.lat_lo, net.lat_hi = op[2], op[3]
                elif k == "stall":
                    net.stalls.append({"dur": op[2]})
                elif k == "arm":
                    net.armed.append({"state": op[2], "nth": op[3], "kind": op[4], "type": op[5], "seen": 0})
            # faults stop
            t_stop = plan["cfg"]["faults_stop"]
            if t_stop > loop.time():
                await asyncio.sleep(t_stop - loop.time())
            net.up = True
            net.sendloss = net.ackloss = net.connfail = 0
            net.armed.clear()
            net.stalls.clear()
            while net.hung:              # the late failure of a hung send is a fault too: faults stop after the last one
                await asyncio.sleep(0.5)
            t_stop = max(t_stop, loop.time())
            net.lat_lo, net.lat_hi = 0.002, 0.03
            rec.log("faults_stop", round(loop.time(), 3))
            await asyncio.sleep(plan["cfg"]["settle"])
            self._check(w, runner, net, produced, res, loop, t_stop)
        finally:
            for tk in tasks:
                tk.cancel()
            try:
                await runner.shutdown()
            except Exception:
                pass
            await asyncio.gather(*tasks, return_exceptions=True)
        res.sim_seconds = loop.time()
        res.steps = loop.steps
        res.fingerprint = stable_hash(fp)
        res.nontrivial = bool(res.faults) and len(net.deliveries) > 10

    def _check(self, w, runner, net: Net, produced, res: RunResult, loop, t_stop) -> None:
        step = int(loop.time() * 10)
        st = runner.state
        if st not in ("Connected", "Reconnected"):
            res.add("C27", "C27.not_recovered_after_faults_stop", st, step,
                    f"{loop.time() - t_stop:.0f} s after the last fault the runner is in state {st}")
            return
        deliv: dict[int, list[float]] = {}
        seq_of: dict[int, set[int]] = {}
        ids_of_seq: dict[int, set[int]] = {}
        for (t, mid, ty, seq, rid) in net.deliveries:
            deliv.setdefault(mid, []).append(t)
            seq_of.setdefault(mid, set()).add(seq)
            ids_of_seq.setdefault(seq, set()).add(mid)
        # (1) nothing produced while disconnected (or whose send failed) is lost
        for d in produced:
            if d["t"] > t_stop + 5:
                continue
            att = net.attempts.get(d["id"], [])
            needs = d["state"] in BUFFER_STATES or any(not ok for _, ok in att) or d.get("buffered")
            if needs and d["id"] not in deliv:
                known_origin = d["how"] == "buffer" and d["state"] == "Reconnected"    # the still-running buffer loop
                res.add("C27", "C27.message_lost", d["type"] if known_origin else f"{d['type']}:{d['how']}@{d['state']}", step,
                        f"{d['type']} produced at t={d['t']:.2f} in runner state {d['state']} ({d['how']}) was never delivered; "
                        f"attempts {[(round(t, 2), ok) for t, ok in att][:4]}; buffer now {len(runner._message_buffer)}")
        if runner._message_buffer:
            res.add("C27", "C27.stranded_in_buffer_after_catch_up",
                    f"{st}:{'+'.join(sorted({type(m).__name__ for m in runner._message_buffer}))}", step,
                    f"runner reports {st} but {len(runner._message_buffer)} message(s) remain in its buffer: "
                    f"{[type(m).__name__ for m in runner._message_buffer[:5]]}")
            by = {d["id"]: d for d in produced}
            sent = [m for m in runner._message_buffer if by.get(id(m), {}).get("how") == "post"]
            if sent:
                res.add("C27", "C27.stranded_in_buffer_after_catch_up",
                        f"{st}:failed_send:{'+'.join(sorted({type(m).__name__ for m in sent}))}", step,
                        f"runner reports {st} but {len(sent)} message(s) whose send failed remain in its buffer: "
                        f"{[type(m).__name__ for m in sent[:5]]}")
        # (3) duplicates only after a failed attempt; one sequence number per message; no sharing
        for mid, times in deliv.items():
            if len(times) > 1:
                att = net.attempts.get(mid, [])
                fails = sum(1 for _, ok in att if not ok)
                if fails < len(times) - 1:
                    ty = next(d["type"] for d in produced if d["id"] == mid) if any(d["id"] == mid for d in produced) else "?"
                    res.add("C27", "C27.duplicate_without_failed_attempt", ty, step,
                            f"{ty} delivered {len(times)} times with only {fails} failed attempt(s)")
                else:
                    res.probe("legal_duplicate")
            if len(seq_of[mid]) > 1:
                res.add("C27", "C27.sequence_number_changed_on_resend", "seq", step,
                        f"one message was delivered with sequence numbers {sorted(seq_of[mid])}")
        for seq, mids in ids_of_seq.items():
            if len(mids) > 1 and seq != -1:
                res.add("C27", "C27.sequence_number_shared", "seq", step,
                        f"sequence number {seq} carried by {len(mids)} distinct messages")
        # (4) run data buffered for a run reaches the far end before that run's stop notification
        first_deliv = {mid: min(ts) for mid, ts in deliv.items()}
        stops = [d for d in produced if d["type"] == "RunStoppedMsg" and d["id"] in first_deliv]
        for sd in stops:
            rid = sd["run_id"]
            t_stop_deliv = first_deliv[sd["id"]]
            for d in produced:
                if d["run_id"] == rid and d["n"] < sd["n"] and d["type"] in ("TagsUpdatedMsg", "RunLogMsg") \
                        and (d.get("buffered") or d["state"] in BUFFER_STATES) and d["id"] in first_deliv \
                        and first_deliv[d["id"]] > t_stop_deliv + 1e-9:
                    res.add("C27", "C27.run_data_after_stop_notification", d["type"], step,
                            f"{d['type']} of run {rid} buffered at t={d['t']:.2f} was delivered at "
                            f"{first_deliv[d['id']]:.3f}, after the run's RunStoppedMsg ({t_stop_deliv:.3f})")
                    break
        res.probe("quiescence_checked")
        res.probe("produced", len(produced))
        res.probe("delivered", len(net.deliveries))
