"""Texts for MANIFEST.json (kept next to the registry so that the manifest is always regenerated, never hand-edited)."""

_SIMH_NOTE = ("Trusted: the FaultyDevice stub raises exactly the scripted HardwareLayerException faults; the reference "
              "model of the five-state protocol in sims/simh.py (taken from docs/src/Error Recovery.rst, nondeterministic "
              "at exact time-out expiry); hardware_recovery.time is the only clock the decorator reads (seam self-test). "
              "Sampling, not proof.")

CHECK_TEXT = {
    "C23": {
        "technique": "deterministic simulation: seeded fault sequences against the real ErrorRecoveryDecorator on a simulated clock, checked against a reference state machine",
        "design_ref": "DESIGN.md 3 SIM-H, 4.C23",
        "level_text": ("Seeded search over bounded sequences (5-60 ops) of read/write/connect outcomes, reconnect outcomes "
                       "and time advances across both time-outs; after every operation the real decorator's state must be "
                       "in the set the documented protocol allows, Connection Status must match, masked reads must return "
                       "the last successfully read value and exceptions must appear exactly in Disconnected/Error; bounded "
                       "liveness after faults stop. Fault enumeration by sampling: evidence, not proof."),
        "level_note": _SIMH_NOTE,
    },
    "C24": {
        "technique": "deterministic simulation: seeded write cycles with torn batches, outages and device resets; register shadow model over the device write log",
        "design_ref": "DESIGN.md 3 SIM-H, 4.C24",
        "level_text": ("Seeded search over write cycles with strictly increasing commanded values (age readable from the "
                       "value), torn batches, pending-flush failures, outages across both time-outs and reconnects with "
                       "device memory reset; the device write log must never show an older value after a newer one, a "
                       "flushed buffered value must be the latest buffered one, and after every clean cycle in state OK the "
                       "device memory equals the latest commanded values."),
        "level_note": _SIMH_NOTE,
    },
}

_PURE = "pure function of its arguments - no clock, schedule, fault, crash point or second party can change the outcome, so deterministic simulation has nothing to decide (DESIGN.md section 5)"
NOT_APPLICABLE = {
    "C17": "parsing totality/structure is a " + _PURE,
    "C18": "line decomposition is a " + _PURE,
    "C19": "analyzer totality is a function of (text, tag set, command set): " + _PURE,
    "C21": "unit comparison laws: " + _PURE,
    "C22": "argument pattern languages: " + _PURE,
    "C25": "composite hardware transparency is a function of (register->layer map, batch, values); no fault in the statement: " + _PURE,
    "C26": "message JSON round trip: " + _PURE + " (every simulated wire hop serialises through it incidentally; not claimed)",
    "C32": "role-based access is a function of (route, required roles, user roles); no state evolves: " + _PURE,
    "C33": "push-notification targeting is a function of database contents, unit and topic: " + _PURE,
    "C34": "CSV export is a function of the stored plot log: " + _PURE,
}

NOT_YET_BUILT = "planned in DESIGN.md, simulator not built yet at this commit - not claimed"
for _p in ["C%02d" % i for i in range(1, 42)]:
    NOT_APPLICABLE.setdefault(_p, NOT_YET_BUILT)

ENGINES = [
    {"name": "simh", "path": "/verif/sims/simh.py", "serves_properties": ["C23", "C24"],
     "kind_free_text": "hardware recovery simulator: real ErrorRecoveryDecorator, scripted faulty device, simulated clock"},
]

NOTES = ("All checks: ./check <ID> --tier quick|thorough; exit 0 held / 1 VIOLATION (minimised replay under /verif/replays, "
         "verified in a fresh interpreter) / 2 HARNESS-ERROR. Checks re-exec themselves with PYTHONHASHSEED=0 and import "
         "openpectus from /repo's working tree (VERIF_REPO overrides, used only by tools/sensitivity.py on scratch copies). "
         "known_findings.json lists recorded and fixed defects; tools/sensitivity.py runs the mutants under /verif/mutants "
         "and the seeded changes under /verif/seeded against scratch copies.")
