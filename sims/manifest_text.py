"""Texts for MANIFEST.json (kept next to the registry so that the manifest is always regenerated, never hand-edited)."""

_SIMH_NOTE = ("Trusted: the FaultyDevice stub raises exactly the scripted HardwareLayerException faults; the reference "
              "model of the five-state protocol in sims/simh.py (taken from docs/src/Error Recovery.rst, nondeterministic "
              "at exact time-out expiry); hardware_recovery.time is the only clock the decorator reads (seam self-test). "
              "Sampling, not proof.")

CHECK_TEXT = {
    "C23": {
        "technique": "deterministic simulation: seeded fault sequences against the real ErrorRecoveryDecorator on a simulated clock, checked against a reference state machine",
        "design_ref": "DESIGN.md 3 SIM-H, 4.C23",
        "level_text": ("Seeded search over bounded sequences (5-60 ops) of read/write/connect outcomes, reconnect outcomes "
                       "and time advances across both time-outs; after every operation the real decorator's state must be "
                       "in the set the documented protocol allows, Connection Status must match, masked reads must return "
                       "the last successfully read value and exceptions must appear exactly in Disconnected/Error; bounded "
                       "liveness after faults stop. Fault enumeration by sampling: evidence, not proof."),
        "level_note": _SIMH_NOTE,
    },
    "C24": {
        "technique": "deterministic simulation: seeded write cycles with torn batches, outages and device resets; register shadow model over the device write log",
        "design_ref": "DESIGN.md 3 SIM-H, 4.C24",
        "level_text": ("Seeded search over write cycles with strictly increasing commanded values (age readable from the "
                       "value) or values that go back to the one before the last change (revert mode), torn batches, pending-flush failures, outages across both time-outs and reconnects with "
                       "device memory reset; the device write log must never show an older value after a newer one, a "
                       "flushed buffered value must be the latest buffered one, and after every clean cycle in state OK the "
                       "device memory equals the latest commanded values."),
        "level_note": _SIMH_NOTE,
    },
}


_E_NOTE = ("Trusted: the SIM-E harness (sims/sime): SimHardware, the probe UOD built with the real UodBuilder, the simulated "
           "clock/uuid proxies, the harness's own reading of generated methods (sims/sime/model.py) and each oracle's stated "
           "tolerances (DESIGN.md 4 and appendix A). Requests enter through the real EngineMessageHandlers, ticks through "
           "Engine.tick. Sampling, not proof; known findings listed in known_findings.json are suppressed by (kind, site) only.")


def _e(text, ref, tech="deterministic simulation of the real engine tick by tick (simulated clock, hardware, request stream); seeded search with invariant oracles"):
    return {"technique": tech, "design_ref": ref, "level_text": text, "level_note": _E_NOTE}


CHECK_TEXT.update({
    "C01": _e("Seeded live-edit histories at drawn ticks against the real Engine/MethodManager/HotSwapVisitor: no effect token outside Alarm/macro bodies twice, reported method state monotone across accepted edits, edits of lines that have started at any time in the run (also macro body lines reset by a later call, macro definitions that have run) rejected without side effect, legal edits accepted, appended lines run. On this tree two genuine defects (state lost, re-execution) are known findings, so the check currently decides the remaining clauses.", "DESIGN.md 4.C01"),
    "C02": _e("Generated methods without requests run to quiescence: tokens outside repeating scopes at most once, siblings in source order, trailing whitespace never passed, in the interrupt-free fragment the effect sequence equals an independent reference walk, and a body that runs again (Alarm re-armed, macro called again) produces its lines in order, each once per invocation.", "DESIGN.md 4.C02"),
    "C03": _e("Thresholds (s/min/h/L/CV under Base changes) and Waits at exact 0.1 s ticks: an instruction never starts before its scope clock, as the interpreter saw it, reached the threshold, and with base s it starts exactly one tick after the first waiting tick whose clock is not below the threshold; the instruction after Wait: d starts within [d, d+0.2 s], in every invocation of a repeating scope no earlier than d.", "DESIGN.md 4.C03"),
    "C04": _e("Watch/Alarm conditions are re-evaluated by the harness every tick: a body activation needs a tick with the condition true (or an accepted force); Watch bodies activate once; no activation after an accepted cancel.", "DESIGN.md 4.C04"),
    "C05": _e("Active blocks rebuilt from emitter events after every tick: single ancestor chain, Block tag = innermost, End block ends the innermost, nothing ended twice.", "DESIGN.md 4.C05"),
    "C06": _e("Control-command sequences with ticks in between: System State, control-state message and Run Id agree after every tick; a user command is accepted exactly when valid in the state at request time; run ids fresh; in the fragment with one command in flight the control state follows a transition model with latencies.", "DESIGN.md 4.C06"),
    "C07": _e("Clock deltas per tick under arbitrary increments and control sequences: Process/Run Time zero at run start and monotone, Process Time only over Running ticks, Block/Scope Time not while Paused/Holding/error-paused.", "DESIGN.md 4.C07"),
    "C08": _e("Register memory of the simulated hardware after engine start and after every tick: safe-valued outputs hold the safe value before the first run, after Stop and during pauses; no other write while Stopped. Two genuine defects are known findings.", "DESIGN.md 4.C08"),
    "C09": _e("Shadow model of the outputs before each Pause over several runs per engine life time: Unpause restores exactly those values; an Unpause after an error pause changes nothing.", "DESIGN.md 4.C09"),
    "C10": _e("Stop/Restart at drawn ticks with long-running, overlapping and failing commands: no command instance left (also for commands a user started while the run was stopping), run-stopped run log conclusive for every executed UOD command (matched by invocation id), simulations and run id cleared.", "DESIGN.md 4.C10"),
    "C11": _e("Probe-command life cycle from the callbacks: init once before the first exec, finalize exactly once, never two live instances of one command or of an overlap group, one command object per invocation, every initialized instance finalized after the final Stop.", "DESIGN.md 4.C11"),
    "C12": _e("Cancel/force requests at drawn ticks on offered, arbitrary and unknown run-log items: offered requests accepted and effective (a cancelled Watch never runs its body, a cancelled command - identified by its invocation - never executes again), others change nothing. Five genuine defects of cancel/force are known findings.", "DESIGN.md 4.C12"),
    "C13": _e("Malformed methods, junk injections, unknown commands and request storms: no exception leaves Engine.tick or a request handler; a failing instruction pauses with Method Status Error and a failed line; Stop stays effective.", "DESIGN.md 4.C13"),
    "C14": _e("Injected snippets at drawn ticks, around pauses/holds and before live edits: each injected Mark takes effect at most once and never in a tick entered Paused/Holding; accepted injections into a Running run take effect; valid injected code never turns a run that ends cleanly without it into an error run (injection-free twin run).", "DESIGN.md 4.C14"),
    "C15": _e("Run log produced every few ticks in every SIM-E profile: producible, sorted, distinct ids, end >= start, concluded items have an end and are not offered, every line reported executed has a completed (or cancelled) item.", "DESIGN.md 4.C15"),
    "C16": _e("Every queued tag update inspected after its tick: tick_time within [engine start, end of this tick's span), per tag non-decreasing, a value changed in this tick stamped in this tick.", "DESIGN.md 4.C16"),
    "C20": _e("The editor's semantic analysis, built from the definitions the engine publishes, gates generated methods; accepted ones are executed with trajectories that drive all conditions; no run-time failure by unknown name, rejected argument or incompatible units. Weakest fit of the family (programs x configurations); no faults involved.", "DESIGN.md 4.C20",
              "deterministic simulation as executor behind the analyzer gate (virtual time makes every accepted line reachable)"),
    "C36": _e("Reports drained through the real message builder after drawn numbers of ticks: every tag whose reported value differs since the previous report is present with its current value; no duplicates; snapshot complete.", "DESIGN.md 4.C36"),
    "C39": _e("Archiver on an in-memory file system with short data-log intervals and Mark texts containing separators, quotes and escape characters: every row read back with the archiver's dialect equals the row handed to the writer, carries exactly the values the tags' archive() returned, and has the header's columns.", "DESIGN.md 4.C39"),
    "C41": _e("Macro-heavy methods: per completed call the body tokens of the latest executed definition appear once; RecursionError never escapes a tick.", "DESIGN.md 4.C41"),
    "C27": {"technique": "deterministic simulation: real EngineRunner on a virtual-time asyncio loop over a faulty simulated link; produce/attempt/deliver history checked at quiescence",
            "design_ref": "DESIGN.md 3 SIM-R, 4.C27",
            "level_text": "Seeded link-fault schedules (outages up to 130 s, sends lost before/after delivery, connect refusals, latency spread, a send that hangs on a half-open connection and fails after the recovery) with engine events at drawn times; after faults stop and 75 simulated seconds: nothing produced while disconnected is lost, the buffer is empty in steady state, duplicates only after a failed attempt, one sequence number per message, buffered run data before the run's stop notification. Four genuine defects are known findings.",
            "level_note": "Trusted: the link model (a failed send kills the connection until the next connect), the recording far end, the virtual-time loop (FIFO for callbacks ready at the same instant). Real: EngineRunner, message builder, engine, serialization."},
    "C40": {"technique": "deterministic simulation of two real threads: baton-passing scheduler with sys.settrace line pre-emption; outcome compared with both serial orders",
            "design_ref": "DESIGN.md 3 SIM-T, 4.C40",
            "level_text": "One tick against one request (edit, inject, control command, cancel, force) under seeded pre-emption points inside the tick and the request; no exception in either thread and an observable outcome equal to request-before-tick or tick-before-request, each recomputed from the same prefix. No repo hook: the trace hook gives finer pre-emption than hand-placed yield points.",
            "level_note": "Trusted: the scheduler and the lock replacement (same mutual exclusion and release semantics as threading.Lock, yields instead of blocking; whether a contended acquire with a timeout times out is a decision of the plan); pre-emption only at line boundaries of the traced repo files."},
})
_A_NOTE = ("Trusted: scripted engines follow the engine protocol; in-memory SQLite is the only state that survives a restart; "
           "commits are not faulted; virtual-time loop with FIFO ready queue. Real: Aggregator, handlers, dispatcher entry points, "
           "repositories, models, publisher.")


def _a(text, ref):
    return {"technique": "deterministic simulation: real aggregator on in-memory SQLite under scripted engines / front-end connections on a virtual-time loop; history and database oracles",
            "design_ref": ref, "level_text": text, "level_note": _A_NOTE}


CHECK_TEXT.update({
    "C28": _a("Run histories with engine disconnect + re-register, graceful restart and crash restart at drawn points: the run continues under the same id, later tag data lands in its plot log, one RecentRun after stop; the engine's return overlaps the handling of its disconnect (slow web push) and of its new websocket (slow id round trip). Crash restarts are a known finding (state is persisted only on disconnect/shutdown).", "DESIGN.md 3 SIM-A, 4.C28"),
    "C29": _a("PlotLogEntryValue rows per (run, tag): strictly increasing times, batches further apart than the data log interval, every stored value was reported at or before its time.", "DESIGN.md 4.C29"),
    "C30": _a("RecentRun and PlotLog rows per run id under duplicated / resent start and stop notifications, disconnects and restarts: exactly one each.", "DESIGN.md 4.C30"),
    "C31": _a("Groups of 1-3 concurrent saves with drawn engine round-trip latencies and error replies: at most one accepted per base version - also over the whole history, with engine method reports (some built saves ago) arriving in between - and version +1 per accepted save.", "DESIGN.md 4.C31"),
    "C35": _a("Error-log batches with repeats, immediate duplicates and reordered pairs: dup-only runs equal the reference aggregator of the statement; no entry is lost.", "DESIGN.md 4.C35"),
    "C37": _a("Subscribe / register / unregister / disconnect histories: active_users[unit] equals the registered users with a live connection after every event.", "DESIGN.md 4.C37"),
    "C38": _a("Engines with name pairs over an alphabet containing the separator and URL-special characters: different pairs never share an id; a registration never takes over a connected id; websockets go through the dispatcher's real connect / reject / disconnect path and an open accepted websocket stays connected under its id.", "DESIGN.md 4.C38"),
})

_PURE = "pure function of its arguments - no clock, schedule, fault, crash point or second party can change the outcome, so deterministic simulation has nothing to decide (DESIGN.md section 5)"
NOT_APPLICABLE = {
    "C17": "parsing totality/structure is a " + _PURE,
    "C18": "line decomposition is a " + _PURE,
    "C19": "analyzer totality is a function of (text, tag set, command set): " + _PURE,
    "C21": "unit comparison laws: " + _PURE,
    "C22": "argument pattern languages: " + _PURE,
    "C25": "composite hardware transparency is a function of (register->layer map, batch, values); no fault in the statement: " + _PURE,
    "C26": "message JSON round trip: " + _PURE + " (every simulated wire hop serialises through it incidentally; not claimed)",
    "C32": "role-based access is a function of (route, required roles, user roles); no state evolves: " + _PURE,
    "C33": "push-notification targeting is a function of database contents, unit and topic: " + _PURE,
    "C34": "CSV export is a function of the stored plot log: " + _PURE,
}

ENGINES = [
    {"name": "simh", "path": "/verif/sims/simh.py", "serves_properties": ["C23", "C24"],
     "kind_free_text": "hardware recovery simulator: real ErrorRecoveryDecorator, scripted faulty device, simulated clock"},
    {"name": "sime", "path": "/verif/sims/sime/", "serves_properties": ["C01", "C02", "C03", "C04", "C05", "C06", "C07", "C08", "C09", "C10", "C11", "C12", "C13", "C14", "C15", "C16", "C20", "C36", "C39", "C41"],
     "kind_free_text": "engine tick simulator: real Engine + interpreter + command manager + method manager + message builder/handlers; simulated clock, hardware, uuid, file system"},
    {"name": "simr", "path": "/verif/sims/simr.py", "serves_properties": ["C27"],
     "kind_free_text": "runner simulator: real EngineRunner on a virtual-time asyncio loop over a faulty simulated link"},
    {"name": "sima", "path": "/verif/sims/sima.py", "serves_properties": ["C28", "C29", "C30", "C31", "C35", "C37", "C38"],
     "kind_free_text": "aggregator simulator: real Aggregator/handlers/repositories on in-memory SQLite under scripted engines and front-end connections"},
    {"name": "simt", "path": "/verif/sims/simt.py", "serves_properties": ["C40"],
     "kind_free_text": "two-thread interleaving simulator: baton-passing scheduler with settrace pre-emption around Engine.tick and one request"},
]

NOTES = ("All checks: ./check <ID> --tier quick|thorough; exit 0 held / 1 VIOLATION (minimised replay under /verif/replays, "
         "verified in a fresh interpreter) / 2 HARNESS-ERROR. Checks re-exec themselves with PYTHONHASHSEED=0 and import "
         "openpectus from /repo's working tree (VERIF_REPO overrides, used only by tools/sensitivity.py on scratch copies). "
         "known_findings.json lists recorded and fixed defects; tools/sensitivity.py runs the mutants under /verif/mutants "
         "and the seeded changes under /verif/seeded against scratch copies.")
