"""Extended operations of SIM-E: live edits, cancel / force of run-log items, stop-message sampling."""
from __future__ import annotations

import re

from simcore.core import HarnessError

from . import model


def _state_sets(w):
    ms = w.method_state()
    return set(ms.started_line_ids), set(ms.executed_line_ids), set(ms.failed_line_ids)


def resolve(w, op):
    """Turn an abstract edit / cancel / force op into the concrete request it means in the current state,
    without sending it: ("edit", new_lines) | ("cancel"|"force", exec_id) | None."""
    from simcore.core import RunResult
    d = {"__resolve_only__": True}

    class _Skip(dict):
        def values(self):
            return []
    box = _Skip(d)
    execute(w, op, box, RunResult(), None, [])
    return box.get("__resolved__")


def execute(w, op, by_name, res, tape, fp):
    k = op[0]
    if k == "edit":
        _edit(w, op, by_name, res, fp)
    elif k in ("cancel", "force"):
        _cancel_force(w, op, by_name, res, fp)
    elif k == "runlog":
        by_name["C15RunLog"].check()
    elif k == "analyze":
        _analyze(w, res)
    elif k == "analyze_verdict":
        _analyze_verdict(w, res)
    elif k == "archive_check":
        _archive_check(w, res)
    elif k == "twin_check":
        _twin_check(w, res)
    elif k == "stop_check":
        # C13: after any history the engine stays responsive to Stop
        # a Stop that arrives while the engine is Restarting is legitimately refused: the user retries
        # (and a Stop that executes in the very tick in which a method-issued Restart begins is dropped)
        accepted = 0
        for attempt in range(8):
            if w.state == "Stopped" and not w.control()[0]:
                break
            if w.user_command("Stop"):
                accepted += 1
                for _ in range(4):
                    w.tick(0.1)
                    if w.state == "Stopped":
                        break
            else:
                w.tick(0.1)
        if w.state != "Stopped":
            res.add("C13", "C13.stop_not_honoured", w.state, w.tick_no,
                    f"user Stop (accepted={accepted}) followed by 4 ticks left the engine in state {w.state}")
        else:
            res.probe("stop_honoured")
    else:
        raise HarnessError(f"unknown op {op}")


def _edit(w, op, by_name, res, fp):
    """["edit", kind, k, payload]
    kinds: append (payload = list of lines appended at the end of the method),
           append_scope (lines appended at the end of the k-th open body scope, indented accordingly),
           change_future (k-th not-yet-started token line gets payload as its new content),
           delete_future (k-th not-yet-started line without children is deleted),
           change_started (k-th started/executed line is modified -> must be rejected),
           same (the unchanged method is sent again)."""
    _, kind, k, payload = op
    lines = [list(x) for x in w.method_lines]
    started, executed, failed = _state_sets(w)
    touched = started | executed | failed
    tree = model.parse(lines)
    nodes = [n for n in tree.walk() if n.kind != "root"]
    new_lines = None
    expect = "accept"
    w.edit_seq = getattr(w, "edit_seq", 0) + 1

    def nid():
        w.line_seq = getattr(w, "line_seq", 1000) + 1
        return f"E{w.line_seq}"

    if kind == "append":
        new_lines = lines + [[nid(), ln] for ln in payload]
    elif kind == "append_scope":
        scopes = [n for n in nodes if n.kind in model.BODY_KINDS and n.kind != "Macro"]
        if not scopes:
            new_lines = lines + [[nid(), ln] for ln in payload]
        else:
            sc = scopes[k % len(scopes)]
            # position after the last descendant line of the scope
            ids = [x.id for x in sc.walk()]
            last = max(i for i, (lid, _) in enumerate(lines) if lid in ids)
            ind = " " * (sc.indent + 4)
            new_lines = lines[:last + 1] + [[nid(), ind + ln] for ln in payload] + lines[last + 1:]
    elif kind in ("change_future", "delete_future"):
        cands = [n for n in nodes if n.id not in touched and n.token is not None and not n.children
                 and not any(a.kind == "Macro" for a in n.ancestors())]
        if not cands:
            fp.append("edit-none")
            return
        n = cands[k % len(cands)]
        idx = next(i for i, (lid, _) in enumerate(lines) if lid == n.id)
        if kind == "change_future":
            new_lines = [list(x) for x in lines]
            if isinstance(payload, list):
                payload = payload[0]
            new_lines[idx][1] = " " * n.indent + payload
        else:
            new_lines = lines[:idx] + lines[idx + 1:]
    elif kind == "change_started":
        # a line that ran in an earlier invocation of a macro counts as started (its flags are reset by the next call); a
        # line of an Alarm body between two invocations does not: the next invocation may legitimately run an edited body
        cands = [n for n in nodes if n.kind == "Mark" and (n.id in (started | executed) or (
            n.id in w.ever_started and not any(a.kind == "Alarm" for a in n.ancestors())))]
        if not cands:
            fp.append("edit-none")
            return
        n = cands[k % len(cands)]
        idx = next(i for i, (lid, _) in enumerate(lines) if lid == n.id)
        new_lines = [list(x) for x in lines]
        new_lines[idx][1] = " " * n.indent + payload
        expect = "reject"
    elif kind == "reindent_started":
        # same text, other indentation: the line would belong to another scope
        cands = [n for n in nodes if n.id in (started | executed) and n.kind in ("Mark", "Set1", "Set3") and not n.children]
        if not cands:
            fp.append("edit-none")
            return
        n = cands[k % len(cands)]
        idx = next(i for i, (lid, _) in enumerate(lines) if lid == n.id)
        new_lines = [list(x) for x in lines]
        body = new_lines[idx][1].strip()
        new_lines[idx][1] = (" " * (n.indent + 4) if (payload or 0) % 2 == 0 or n.indent == 0 else " " * (n.indent - 4)) + body
        expect = "reject"
    elif kind in ("macro_add", "macro_change", "macro_remove"):
        # C41: edits of a macro definition. Expectation from what the harness itself observed: the macro has started
        # if one of its body tokens took effect or a call of it is reported executed; it has not if no call of it is
        # reported started. In between (a call line started, nothing of the body seen yet) nothing is expected.
        macros = [n for n in nodes if n.kind == "Macro" and n.parent is tree]
        names = [n.arg for n in macros]
        macros = [n for n in macros if names.count(n.arg) == 1 and any(c.token for c in n.children)]
        if not macros:
            fp.append("edit-none")
            return
        mac = macros[k % len(macros)]
        calls = [n for n in nodes if n.kind == "Call macro" and n.arg == mac.arg]
        seen = {(e[1], e[2]) for e in w.effects}
        all_tokens = [n.token for n in nodes if n.token]
        body_seen = any(c.token in seen for c in mac.walk() if c.token and all_tokens.count(c.token) == 1)
        if body_seen or any(c.id in executed for c in calls):
            expect = "reject"
        elif not any(c.id in touched for c in calls):
            expect = "free"
        else:
            expect = "unknown"
        ids = [x.id for x in mac.walk()]
        first = next(i for i, (lid, _) in enumerate(lines) if lid == mac.id)
        last = max(i for i, (lid, _) in enumerate(lines) if lid in ids)
        ind = " " * (mac.indent + 4)
        text = payload if isinstance(payload, str) else payload[0]
        if kind == "macro_add":
            new_lines = lines[:last + 1] + [[nid(), ind + text]] + lines[last + 1:]
        elif kind == "macro_change":
            body = [c for c in mac.children if c.token is not None and not c.children]
            if not body:
                fp.append("edit-none")
                return
            tgt = body[(k // 7) % len(body)]
            idx = next(i for i, (lid, _) in enumerate(lines) if lid == tgt.id)
            new_lines = [list(x) for x in lines]
            new_lines[idx][1] = ind + text
        else:
            # the definition disappears; calls of it that have not started are removed with it
            drop = set(ids) | {c.id for c in calls if c.id not in touched}
            new_lines = [x for x in lines if x[0] not in drop]
        # the definition line itself is "executed" once the macro is registered; only body lines count as started work
        changed_ids = (set(ids) - {mac.id}) if kind == "macro_remove" else ({tgt.id} if kind == "macro_change" else set())
        w.macro_edit = (mac.arg, expect, sorted(changed_ids & w.ever_started))
    elif kind == "same":
        new_lines = lines
    else:
        raise HarnessError(f"unknown edit kind {kind}")
    if by_name.get("__resolve_only__"):
        by_name["__resolved__"] = ("edit", new_lines)
        return
    for o in by_name.values():
        f = getattr(o, "before_edit", None)
        if f:
            f(kind, expect, lines, new_lines)
    reply = w.set_method_text("", lines=[tuple(x) for x in new_lines])
    accepted = type(reply).__name__ == "SuccessMessage"
    for o in by_name.values():
        f = getattr(o, "after_edit", None)
        if f:
            f(kind, expect, accepted, lines, new_lines)
    fp.append(f"edit-{kind}-{'a' if accepted else 'r'}")
    res.probe(f"edit_{kind}_{'accepted' if accepted else 'rejected'}")


def _cancel_force(w, op, by_name, res, fp):
    """["cancel"|"force", k, mode]: mode 'offered' targets the k-th item currently offered, 'any' the k-th item."""
    what, k, mode = op
    try:
        items = list(w.runlog().items)
    except Exception:
        fp.append(what + "-norunlog")
        return
    if mode == "offered":
        cands = [it for it in items if (it.cancellable if what == "cancel" else it.forcible)]
    elif mode == "unknown":
        cands = []
    elif str(mode).startswith("named:"):
        # the offered item whose name starts with the given text (e.g. the Watch of an injected snippet)
        cands = [it for it in items if it.name.startswith(mode[6:]) and (it.cancellable if what == "cancel" else it.forcible)]
    else:
        cands = items
    if mode == "unknown":
        target_id, item = "00000000-dead-beef-0000-000000000000", None
    elif not cands:
        fp.append(what + "-none")
        return
    else:
        item = cands[k % len(cands)]
        target_id = item.id
    if by_name.get("__resolve_only__"):
        by_name["__resolved__"] = (what, target_id)
        return
    for o in by_name.values():
        f = getattr(o, "before_cancel_force", None)
        if f:
            f(what, item, target_id)
    ok = w.cancel(target_id) if what == "cancel" else w.force(target_id)
    for o in by_name.values():
        f = getattr(o, "after_cancel_force", None)
        if f:
            f(what, item, target_id, ok)
    fp.append(f"{what}-{mode}-{'a' if ok else 'r'}")
    res.probe(f"{what}_{'accepted' if ok else 'rejected'}")


def _archive_check(w, res):
    """C39: every data row has the header's columns and reads back exactly what was archived."""
    import csv
    import openpectus.engine.archiver as m_arch
    fs = w.fs
    if fs is None:
        raise HarnessError("archive_check without archiver profile")
    n_files = 0
    for path, text in sorted(fs.files.items()):
        if "archiver-runlog" in path or not path.endswith(".txt"):
            continue
        n_files += 1
        try:
            rows = list(csv.reader(text.splitlines(keepends=True) if False else __import__("io").StringIO(text, newline=""),
                                   delimiter=m_arch.delimiter, quoting=m_arch.quoting, escapechar=m_arch.escapechar))
        except Exception as ex:
            res.add("C39", "C39.archive_not_parsable", type(ex).__name__, w.tick_no, f"{path}: {ex!r}")
            continue
        written = fs.rows_written.get(path, [])
        if not rows:
            continue
        header = rows[0]
        for i, row in enumerate(rows[1:], start=1):
            if len(row) != len(header):
                res.add("C39", "C39.row_column_count_differs_from_header", "columns", w.tick_no,
                        f"{path} row {i}: {len(row)} cells, header has {len(header)}: {row[:6]}")
                break
        if len(rows) != len(written):
            res.add("C39", "C39.row_count_differs", "rows", w.tick_no,
                    f"{path}: {len(written)} rows written, {len(rows)} rows read back")
        for i, (got, exp) in enumerate(zip(rows, written)):
            if got != exp:
                j = next((k for k, (a, b) in enumerate(zip(got, exp)) if a != b), min(len(got), len(exp)))
                col = header[j] if j < len(header) else "?"
                res.add("C39", "C39.cell_does_not_read_back", col.split(" [")[0], w.tick_no,
                        f"{path} row {i}: archived {exp[j] if j < len(exp) else None!r}, read back "
                        f"{got[j] if j < len(got) else None!r} (column {col!r})")
                break
        # ... and exactly what the tags' archive() returned for that row (whatever the archiver did in between)
        archived = fs.rows_archived.get(path, [])
        for i, (got, exp) in enumerate(zip(rows, archived)):
            if exp is None or len(got) != len(header):
                continue
            if got[1:] != exp:
                j = next((k for k, (a, b) in enumerate(zip(got[1:], exp)) if a != b), min(len(got) - 1, len(exp)))
                col = header[j + 1] if j + 1 < len(header) else "?"
                res.add("C39", "C39.cell_differs_from_archived_value", col.split(" [")[0], w.tick_no,
                        f"{path} row {i}: the tag's archive() returned {exp[j] if j < len(exp) else None!r}, the file reads "
                        f"back {got[j + 1] if j + 1 < len(got) else None!r} (column {col!r})")
                break
            res.probe("archive_rows_compared_with_archive_values")
        res.probe("archive_rows_checked", len(rows))
    res.probe("archive_files_checked", n_files)


def _analyze(w, res):
    """Run the editor's semantic analysis exactly as the LSP does, from the definition the engine publishes."""
    import json
    from openpectus.lsp.lsp_analysis import build_commands, build_tags
    from openpectus.lang.exec.analyzer import SemanticCheckAnalyzer
    from openpectus.lang.model.parser import ParserMethod, create_method_parser
    from openpectus.protocol.serialization import serialize, deserialize
    msg = w.builder.create_uod_info()
    back = deserialize(json.loads(json.dumps(serialize(msg), default=lambda o: sorted(o) if isinstance(o, (set, frozenset)) else str(o))))
    uod_def = back.uod_definition
    pcode = "\n".join(c for _, c in w.method_lines)
    method = ParserMethod.from_pcode(pcode)
    program = create_method_parser(method, uod_command_names=[]).parse_method(method)
    try:
        an = SemanticCheckAnalyzer(build_tags(uod_def), build_commands(uod_def))
        an.analyze(program)
        w.analysis_errors = [(i.id, i.message) for i in an.errors]
        w.analysis_ok = len(an.errors) == 0
    except Exception as ex:
        w.analysis_errors = [("exception", repr(ex))]
        w.analysis_ok = False
    res.probe("analysis_accepted" if w.analysis_ok else "analysis_rejected")


CATEGORIES = [("unknown_command", ("Unknown command", "Invalid command type", "Invalid instruction", "is not supported")),
              ("unknown_tag", ("Unknown tag", "Tag name", "not found")),
              ("invalid_argument", ("Invalid argument", "Invalid arguments", "Failed to initialize arguments", "has invalid argument",
                                    "Argument error", "must be")),
              ("incompatible_units", ("incompatible", "Incompatible", "Error evaluating condition", "comparison error",
                                      "Cannot change unit", "Cannot set unit", "not comparable", "unit"))]


def _analyze_verdict(w, res):
    if not getattr(w, "analysis_ok", False):
        return
    res.probe("accepted_method_executed")
    errs = [e for e in w.events if e[1] == "method_error"]
    if not errs:
        return
    ex = w.engine.get_error_state_exception()
    text = f"{type(ex).__name__}: {ex} {getattr(ex, 'message', '')} {getattr(ex, 'user_message', '')} " \
           f"{getattr(ex, '__cause__', '')!r}"
    failed = set(w.method_state().failed_line_ids)
    lines = [c.strip() for i, c in w.method_lines if i in failed]
    for cat, needles in CATEGORIES:
        if any(n in text for n in needles):
            res.add("C20", "C20.accepted_method_failed_" + cat, (lines[0].split(":")[0] if lines else "?"), w.tick_no,
                    f"analysis reported no error but line {lines[:1]} failed at run time: {text[:300]}")
            return
    res.probe("accepted_method_failed_other_cause")


def _twin_check(w, res):
    """C14: injected code does not change which method lines have started or completed. The same plan is executed once
    more without its injections (fresh engine, same ticks, trajectory and requests); when both runs reach the end of the
    method and come to rest, the method state before the final Stop is the same."""
    from simcore.core import Recorder, RunResult
    from .world import EngineWorld
    plan = getattr(w, "plan", None)
    if plan is None:
        return
    if "edit" in w.ctx_flags or any(op[0] in ("edit", "cancel", "force") for op in plan["ops"]):
        return
    if "err" in w.ctx_flags:
        # every snippet of this profile is valid code. If the run with the injections ended in an error while the same
        # run without them reaches the end of the method cleanly, the injections caused the error: they did change
        # which method lines start and complete, and a command they started did not complete and finalize normally
        if any(op[0] == "inject" for op in plan["ops"]) and _twin_run(plan) is not None:
            first = next((e for e in w.events if e[1] == "method_error"), None)
            res.add("C14", "C14.injection_caused_run_error", "error", w.tick_no,
                    f"the run with injected code {[op[1] for op in plan['ops'] if op[0] == 'inject']} went into an error "
                    f"({first}); the same run without the injections reaches the end of the method without any error")
        return
    if not getattr(w, "quiescent", False) or getattr(w, "final_method_state", None) is None:
        return
    # injected code that opens / ends blocks, or starts a command that the method uses too (or an overlapping one: the
    # newer request replaces the method's command by design), legitimately interacts with the method's lines
    groups = [{"LongA", "LongB"}, {"LongB", "LongC"}]
    method_cmds = {n.kind for n in model.parse(plan["method"]).walk() if n.kind in model.UOD}
    rivals = set(method_cmds)
    for g in groups:
        if g & method_cmds:
            rivals |= g
    for op in plan["ops"]:
        if op[0] == "inject":
            for ln in str(op[1]).split("\n"):
                name = ln.strip().split(":")[0].strip()
                name = name.split(" ")[-1] if name and name[0].isdigit() else name
                if name in ("Block", "End block", "End blocks") or name in rivals:
                    return
    ms = _twin_run(plan)
    if ms is None:
        return
    a = w.final_method_state
    _twin_compare(w, res, plan, a, ms)


def _twin_run(plan):
    """The plan without its injections on a fresh engine; the method state before the final Stop, or None when that run
    does not reach the end of the method at rest and without error."""
    from simcore.core import Recorder, RunResult
    from .world import EngineWorld
    r2 = RunResult()
    t = EngineWorld(r2, Recorder())
    try:
        t.set_method_text("", lines=[tuple(x) for x in plan["method"]])
        vol_rate = 0.0
        ms = None
        for op in plan["ops"]:
            k = op[0]
            if k == "tick":
                for _ in range(op[1]):
                    if vol_rate:
                        t.hw.inputs["VOL"] = round(t.hw.inputs["VOL"] + vol_rate * op[2] / 0.1, 6)
                    t.tick(op[2])
            elif k == "user":
                t.user_command(op[1])
            elif k == "pv":
                t.hw.inputs[op[1]] = op[2]
            elif k == "volrate":
                vol_rate = op[1]
            elif k == "settle":
                n = 0
                while n < op[1]:
                    if any(e[1] == "method_end" for e in t.events) and not t.uod.command_instances and t.state == "Running":
                        break
                    if t.state == "Stopped" and n > 3:
                        break
                    t.tick(0.1)
                    n += 1
                for _ in range(4):
                    t.tick(0.1)
            elif k == "end_stop":
                if not (any(e[1] == "method_end" for e in t.events) and not t.uod.command_instances):
                    return None
                ms = t.method_state()
                break
        if ms is None or t.exceptions or any(e[1] == "method_error" for e in t.events) or "err" in t.ctx_flags:
            return None
        return ms
    finally:
        t.close()


def _twin_compare(w, res, plan, a, ms):
    # lines in Watch / Alarm bodies are left out: interrupts keep firing after the method's end, and the two runs come to
    # rest a few ticks apart (the injected code takes ticks), so such a line may have started in one and not yet in the other
    tree = model.parse(plan["method"])
    ids = {n.id for n in tree.walk() if n.kind != "root" and not any(x.kind in ("Watch", "Alarm") for x in n.ancestors())
           and n.kind not in ("Watch", "Alarm")}
    for name in ("started_line_ids", "executed_line_ids", "failed_line_ids"):
        x, y = set(getattr(a, name)) & ids, set(getattr(ms, name)) & ids
        if x != y:
            res.add("C14", "C14.injection_changed_method_state", name.split("_")[0], w.tick_no,
                    f"at rest the run with injected code reports {name} {sorted(x)}, the same run without the injections "
                    f"{sorted(y)} (only in one of them: {sorted(x ^ y)})")
            return
    res.probe("twin_run_compared")
