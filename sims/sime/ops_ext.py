"""Extended operations of SIM-E (edit, cancel/force, ...)."""
from __future__ import annotations

from simcore.core import HarnessError


def execute(w, op, by_name, res, tape, fp):
    raise HarnessError(f"unknown op {op}")
