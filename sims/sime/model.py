"""The harness's own (independent) reading of a generated method: indentation tree + effect tokens.
Only used for methods the generator produced well-formed; malformed methods get crash/protocol oracles only."""
from __future__ import annotations

import re
from dataclasses import dataclass, field

BODY_KINDS = {"Block", "Watch", "Alarm", "Macro"}
UOD = {"Set1", "Set3", "Ramp", "LongA", "LongB", "LongC", "Valve", "Boom", "BoomInit", "BadArgs", "Spin", "Churn", "OpenValve", "Full", "SlowOpen", "SlowFull"}
LINE_RE = re.compile(r"^(?P<indent> *)((?P<thr>\d+(\.\d+)?) )?(?P<name>[A-Za-z_0-9][^:#]*?)(: (?P<arg>[^#]*?))?\s*(#.*)?$")


@dataclass
class MNode:
    id: str
    indent: int
    kind: str            # instruction name, or "blank" / "comment" / "error" / "root"
    arg: str = ""
    threshold: float | None = None
    text: str = ""
    children: list["MNode"] = field(default_factory=list)
    parent: "MNode | None" = None

    @property
    def token(self) -> tuple[str, str] | None:
        if self.kind == "Mark":
            return ("mark", self.arg)
        if self.kind in UOD:
            m = re.match(r"^\s*(-?[0-9.]+|Open|Closed)?", self.arg or "")
            return ("cmd", f"{self.kind}:{(m.group(1) or '') if m else ''}")
        return None

    @property
    def is_ws(self) -> bool:
        return self.kind in ("blank", "comment")

    def walk(self):
        yield self
        for c in self.children:
            yield from c.walk()

    def ancestors(self):
        n = self.parent
        while n is not None:
            yield n
            n = n.parent


def parse(lines: list[tuple[str, str]] | list[list[str]]) -> MNode:
    root = MNode("root", -4, "root")
    stack = [root]
    for lid, content in lines:
        s = content.strip()
        ind = len(content) - len(content.lstrip(" "))
        if s == "":
            node = MNode(lid, ind, "blank", text=content)
            # blank lines attach to the innermost open scope whose indent fits
            _attach(stack, node, whitespace=True)
            continue
        if s.startswith("#"):
            node = MNode(lid, ind, "comment", text=content)
            _attach(stack, node, whitespace=True)
            continue
        m = LINE_RE.match(content)
        if not m:
            node = MNode(lid, ind, "error", text=content)
        else:
            node = MNode(lid, ind, m.group("name").strip(), (m.group("arg") or "").strip(),
                         float(m.group("thr")) if m.group("thr") else None, content)
        _attach(stack, node, whitespace=False)
        if node.kind in BODY_KINDS:
            stack.append(node)
    return root


def _attach(stack: list[MNode], node: MNode, whitespace: bool) -> None:
    if not whitespace:
        while len(stack) > 1 and node.indent <= stack[-1].indent:
            stack.pop()
        parent = stack[-1]
    else:
        # whitespace does not close scopes; it belongs to the deepest scope it is indented into
        k = len(stack) - 1
        while k > 0 and node.indent <= stack[k].indent:
            k -= 1
        parent = stack[k]
    node.parent = parent
    parent.children.append(node)


def cond_parse(arg: str):
    """'PV1 > 3 L/h' -> (tag, op, value, unit)"""
    m = re.match(r"^\s*(?P<tag>[A-Za-z0-9 ]+?)\s*(?P<op>>=|<=|!=|=|>|<)\s*(?P<val>-?[0-9.]+)\s*(?P<unit>\S+)?\s*$", arg)
    if not m:
        return None
    return m.group("tag"), m.group("op"), float(m.group("val")), m.group("unit")


def cond_eval(c, value: float) -> bool:
    _, op, v, _ = c
    return {">": value > v, "<": value < v, ">=": value >= v, "<=": value <= v, "=": value == v, "!=": value != v}[op]
