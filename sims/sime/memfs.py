"""In-memory file system + csv capture for the archiver (SIM-E archive profile, C39)."""
from __future__ import annotations

import csv as _csv
import io
import os as _os
from types import SimpleNamespace


class _MemFile(io.StringIO):
    def __init__(self, fs, path, initial=""):
        super().__init__(initial, newline="")
        self.fs, self.path = fs, path
        self.seek(0, io.SEEK_END)

    def close(self):
        self.fs.files[self.path] = self.getvalue()
        super().close()

    def __exit__(self, *a):
        self.close()
        return False


class MemFS:
    def __init__(self):
        self.files: dict[str, str] = {}
        self.dirs: set[str] = set()
        self.rows_written: dict[str, list[list[str]]] = {}     # path -> rows handed to csv.writer.writerow
        # what Tag.archive() returned between the creation of a writer and its writerow (the world wraps every tag's
        # archive()): the values the statement calls "archived", independent of what the archiver then does with them
        self.archived_now: list[tuple[str, object]] = []
        self.rows_archived: dict[str, list[list[str] | None]] = {}   # path -> per row: the non-None archive() values
        self.free_mb = 1000.0

    def open(self, path, mode="r", newline=None, encoding=None):
        if "x" in mode:
            if path in self.files:
                raise FileExistsError(path)
            self.files[path] = ""
            return _MemFile(self, path, "")
        if "a" in mode:
            return _MemFile(self, path, self.files.get(path, ""))
        if "r" in mode:
            if path not in self.files:
                raise FileNotFoundError(path)
            return io.StringIO(self.files[path], newline=newline)
        raise ValueError(mode)

    def patches(self, m_arch):
        fs = self

        class _Path:
            join = staticmethod(_os.path.join)
            dirname = staticmethod(_os.path.dirname)
            realpath = staticmethod(lambda p: "/simfs/engine/archiver.py")
            basename = staticmethod(_os.path.basename)

            @staticmethod
            def exists(p):
                return p in fs.dirs or p in fs.files

            @staticmethod
            def isfile(p):
                return p in fs.files

        def statvfs(p):
            return SimpleNamespace(f_bavail=int(fs.free_mb * 1024), f_frsize=1024)

        osp = SimpleNamespace(path=_Path, makedirs=lambda p, exist_ok=False: fs.dirs.add(p), statvfs=statvfs)

        class _Writer:
            def __init__(self, f, **kw):
                self._w = _csv.writer(f, **kw)
                self._path = getattr(f, "path", "?")
                fs.archived_now = []

            def writerow(self, row):
                first = not fs.rows_written.get(self._path)
                fs.rows_written.setdefault(self._path, []).append([str(x) for x in row])
                vals = [v for _, v in fs.archived_now if v is not None]
                fs.archived_now = []
                # the header row (first of a file) names the tags; every other row carries their values
                fs.rows_archived.setdefault(self._path, []).append(None if first else [str(v) for v in vals])
                return self._w.writerow(row)

        csvp = SimpleNamespace(writer=_Writer, QUOTE_NONE=_csv.QUOTE_NONE, reader=_csv.reader)
        return [(m_arch, "open", self.open), (m_arch, "os", osp), (m_arch, "csv", csvp)]
