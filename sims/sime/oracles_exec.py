"""Execution-order oracles of SIM-E (C01-C05, C10-C14, C41). Filled in incrementally."""
from __future__ import annotations


def make(world, plan, res):
    return []
