"""Execution-order oracles of SIM-E: C01-C05, C10-C14, C41."""
from __future__ import annotations

import re
from typing import Any

from . import model
from .oracles_basic import Oracle

M_SLACK = 6      # bounded-liveness slack in Running ticks (appendix A of DESIGN.md: observed need is 3)


def make(world, plan, res):
    cfg = plan.get("cfg", {})
    out = [C11Commands(world, plan, res), C05Blocks(world, plan, res), C13Errors(world, plan, res),
           C10StopRestart(world, plan, res)]
    if cfg.get("wellformed", False):
        out += [C02Order(world, plan, res), C03Thresholds(world, plan, res), C04Interrupts(world, plan, res),
                C41Macros(world, plan, res)]
    out += [C01Edits(world, plan, res), C14Inject(world, plan, res), C12CancelForce(world, plan, res)]
    return out


def records(w) -> dict[str, list[tuple[str, int, float, str]]]:
    snap = getattr(w, "final_records", None)
    if snap is not None:
        return snap         # taken just before the harness's final Stop (Stop resets the interpreter and its records)
    return live_records(w)


def live_records(w) -> dict[str, list[tuple[str, int, float, str]]]:
    out: dict[str, list[tuple[str, int, float, str]]] = {}
    for r in w.engine.interpreter.runtimeinfo.records:
        out[r.node_id] = [(str(st.state_name), st.state_tick, st.state_time, st.instance_id) for st in r.states]
    return out


def macro_called_outside_its_block(tree: model.MNode) -> bool:
    """A macro is defined inside a Block and called from outside that block (context of a known defect: the body's lines
    count as lines of the ended block and are skipped)."""
    for mac in tree.walk():
        if mac.kind != "Macro":
            continue
        blk = next((a for a in mac.ancestors() if a.kind == "Block"), None)
        if blk is None:
            continue
        inside = {x.id for x in blk.walk()}
        if any(c.kind == "Call macro" and c.arg == mac.arg and c.id not in inside for c in tree.walk()):
            return True
    return False


def in_repeating_scope(n: model.MNode) -> bool:
    return any(a.kind in ("Alarm", "Macro") for a in n.ancestors())


# ---------------------------------------------------------------------------------------------- C11
class C11Commands(Oracle):
    """Exclusivity and init/finalize pairing of UOD command instances, from the probe callbacks."""

    OVERLAP = [{"LongA", "LongB"}, {"LongB", "LongC"}]

    def __init__(self, world, plan, res):
        super().__init__(world, plan, res)
        self.inst: dict[int, dict[str, Any]] = {}
        self.exec_this_tick: dict[str, set[int]] = {}
        self.tick_seen = -2
        self.by_iid: dict[str, int] = {}

    def on_probe(self, ev):
        tick, phase, name, inst, it, args = ev[:6]
        d = self.inst.setdefault(inst, {"name": name, "init": 0, "exec": 0, "fin": 0, "first_exec": None, "fin_tick": None,
                                        "init_tick": None})
        if tick != self.tick_seen:
            self.tick_seen = tick
            self.exec_this_tick = {}
        if phase == "init":
            d["init"] += 1
            d["init_tick"] = tick
            # one invocation (engine instance id = run-log item id) is carried out by one command object: a request that
            # is initialized a second time under the same id has started its command again from the beginning
            iid = ev[6] if len(ev) > 6 else ""
            d["iid"] = iid
            # "a new request first cancels the older instance": when two invocations of one command are initialized in the
            # same tick, the one that replaces the other is the newer request (invocation ids are issued in request order)
            try:
                mine = int(iid.replace("-", ""), 16) if iid else None
            except ValueError:
                mine = None
            if mine is not None:
                for other, od in self.inst.items():
                    if other == inst or od["name"] != name or od.get("init_tick") != tick or od["fin"] == 0 or not od.get("iid"):
                        continue
                    try:
                        theirs = int(od["iid"].replace("-", ""), 16)
                    except ValueError:
                        continue
                    if theirs > mine:
                        self.v("C11", "C11.older_request_replaced_newer" + self.w.ctx(), name,
                               f"tick {tick}: invocation {od['iid'][-4:]} of {name} (the newer request) was initialized and "
                               f"finalized, then invocation {iid[-4:]} (the older request) was initialized in its place")
            if iid:
                prev = self.by_iid.setdefault(iid, inst)
                if prev != inst:
                    self.v("C11", "C11.invocation_started_again" + self.w.ctx(), name,
                           f"invocation {iid[-4:]} of {name} was initialized as instance {prev} (tick "
                           f"{self.inst[prev]['init_tick']}) and again as instance {inst} in tick {tick}")
            if d["init"] > 1:
                self.v("C11", "C11.initialized_twice", name, f"instance {inst} of {name} initialized {d['init']} times")
            if d["exec"] > 0:
                self.v("C11", "C11.init_after_exec", name, f"instance {inst} of {name} initialized after it executed")
        elif phase == "exec":
            if d["init"] == 0:
                self.v("C11", "C11.exec_without_init", name, f"instance {inst} of {name} executed without init")
            if d["fin"] > 0:
                self.v("C11", "C11.exec_after_finalize", name, f"instance {inst} of {name} executed after finalize")
            d["exec"] += 1
            # exclusivity: while this instance executes no other instance of the same command (or of a command
            # declared as overlapping) is alive, i.e. initialized and not yet finalized
            for other, od in self.inst.items():
                if other == inst or od["init"] == 0 or od["fin"] > 0:
                    continue
                if od.get("edited_while_alive"):
                    continue      # reported once as C11.command_orphaned_by_live_edit
                if od["name"] == name:
                    self.v("C11", "C11.two_live_instances_same_command" + self.w.ctx(), name,
                           f"instance {inst} of {name} executed in tick {tick} while instance {other} "
                           f"(initialized in tick {od['init_tick']}) was not finalized")
                elif any(name in g and od["name"] in g for g in self.OVERLAP):
                    self.v("C11", "C11.overlapping_commands_alive" + self.w.ctx(), "+".join(sorted((name, od["name"]))),
                           f"{name} executed in tick {tick} while overlapping {od['name']} (instance {other}) was not finalized")
        elif phase == "finalize":
            d["fin"] += 1
            d["fin_tick"] = tick
            if d["fin"] > 1:
                self.v("C11", "C11.finalized_twice", name, f"instance {inst} of {name} finalized {d['fin']} times")

    def after_edit(self, kind, expect, accepted, old, new):
        # a live edit replaces the engine's command manager; instances alive at that moment are "orphan candidates"
        if accepted and self.w.state not in ("Stopped", "Restarting"):
            for inst, d in self.inst.items():
                if d["init"] and d["fin"] == 0:
                    d["edited_while_alive"] = True

    def at_end(self, w):
        # the harness always ends a run with Stop + settle ticks: every initialized instance is finalized
        if not getattr(w, "ended_with_stop", False):
            return
        orphan_names = set()
        for inst, d in self.inst.items():
            if d["init"] and d["fin"] == 0:
                if d.get("edited_while_alive"):
                    orphan_names.add(d["name"])
                    self.v("C11", "C11.command_orphaned_by_live_edit", d["name"],
                           f"instance {inst} of {d['name']} (initialized in tick {d['init_tick']}) was alive when a live "
                           f"edit was accepted; it never executed again and was never finalized")
                else:
                    self.v("C11", "C11.never_finalized" + w.ctx(), d["name"],
                           f"instance {inst} of {d['name']} initialized in tick {d['init_tick']} was never finalized")
        left = sorted(set(w.uod.command_instances) - orphan_names)
        if left:
            self.v("C11", "C11.instance_left_after_stop" + w.ctx(), left[0],
                   f"after the final Stop uod still holds instances {left}")


# ---------------------------------------------------------------------------------------------- C10
class C10StopRestart(Oracle):
    """When Stop/Restart completes nothing is executing, the run-stopped run log is conclusive for UOD commands,
    simulations and the run id are cleared, Restart runs again from the first line under a new id."""

    def __init__(self, world, plan, res):
        super().__init__(world, plan, res)
        world.on_stop_hooks.append(self.on_stop_event)
        self.stop_tick = None
        self.run_id_at_stop = None
        self.pending_restart_check = None
        self.prev_rid = None
        self.run_ids: list[str] = []
        self.await_first: int | None = None      # index into w.effects at the start of a further run
        first = next((c for _, c in plan["method"] if c.strip() and not c.strip().startswith("#")), "")
        m = re.fullmatch(r"Mark: (\S+)", first)       # un-indented, no threshold: the first thing any run does
        self.first_mark = m.group(1) if m else None
        self.no_edits = not any(op[0] in ("edit",) for op in plan["ops"])

    def before_tick(self, w, inc):
        self.prev_rid = w.tag("Run Id")
        self.ev_pos = len(w.events)

    edited_in_run = False

    def after_edit(self, kind, expect, accepted, old, new):
        if accepted and self.w.state not in ("Stopped", "Restarting"):
            self.edited_in_run = True

    def on_stop_event(self):
        # what EngineRunner does in its on_stop handler: build the run-stopped message now
        w = self.w
        rid = self.prev_rid
        self.stop_tick = w.tick_no
        try:
            msg = w.builder.create_run_stopped_msg(rid or "")
        except Exception as ex:
            self.v("C10", "C10.run_stopped_message_raised", type(ex).__name__, repr(ex))
            return
        # UOD commands that really started in this run: probe instances that executed since the run started
        run_start = max([e[0] for e in w.events if e[1] == "start"] or [0])
        # the run-log item of a method-issued command carries the instance id of its invocation, which the probe command
        # reports too (a command started by a user button has no item): every item of a command that executed is concluded
        executed: dict[str, tuple[str, int]] = {}
        for ev in w.plog.events:
            if ev[0] >= run_start and ev[1] == "exec" and len(ev) > 6 and ev[6]:
                executed.setdefault(ev[6], (ev[2], ev[3]))
        for ln in msg.runlog.lines:
            base = ln.command_name.split(":")[0].strip()
            if base not in model.UOD or str(ln.id) not in executed:
                continue
            if not (ln.end is not None or ln.cancelled or ln.failed):
                self.v("C10", "C10.uod_command_open_in_final_runlog" + w.ctx(), base,
                       f"{ln.command_name!r} (invocation {str(ln.id)[-4:]}, probe instance {executed[str(ln.id)][1]}) executed "
                       f"in the run but its item in the run-stopped run log is neither completed, failed nor cancelled")
        self.res.probe("run_stopped_msg_checked")

    def after_tick(self, w, inc):
        evs = w.events[self.ev_pos:]
        for e in evs:
            if e[1] != "start":
                continue
            rid = e[2]
            if not rid or rid in self.run_ids:
                self.v("C10", "C10.run_id_not_new", "Run Id", f"run started in tick {w.tick_no} with run id {rid!r}; "
                       f"earlier runs of this engine: {self.run_ids}")
            if self.run_ids and self.no_edits and "edit" not in w.ctx_flags:
                # a further run (after Restart, or Stop and Start) of the same method
                ms = w.method_state()
                left = sorted(set(ms.executed_line_ids) | set(ms.started_line_ids) | set(ms.failed_line_ids))
                if left:
                    self.v("C10", "C10.method_state_not_reset_at_run_start", "method_state",
                           f"the run started in tick {w.tick_no} begins with lines {left} already started/executed/failed")
                if self.first_mark is not None:
                    self.await_first = len(w.effects)
            self.run_ids.append(rid)
        if self.await_first is not None:
            marks = [fx for fx in w.effects[self.await_first:] if fx[1] == "mark"]
            if marks:
                if marks[0][2] != self.first_mark:
                    self.v("C10", "C10.new_run_did_not_begin_at_first_line", "Mark",
                           f"first Mark of the run started after Stop/Restart is {marks[0][2]!r} (tick {marks[0][0]}), "
                           f"the method's first line is 'Mark: {self.first_mark}'")
                else:
                    self.res.probe("new_run_began_at_first_line")
                self.await_first = None
        if any(e[1] == "stop" for e in evs):
            self.await_first = None
            if w.uod.command_instances:
                kind = "C10.command_orphaned_by_live_edit" if self.edited_in_run else \
                    "C10.command_instance_after_stop" + w.ctx()
                self.v("C10", kind, sorted(w.uod.command_instances)[0],
                       f"Stop/Restart completed in tick {w.tick_no} but uod holds {sorted(w.uod.command_instances)}")
            self.edited_in_run = False
            sim = [t.name for t in w.engine._iter_all_tags() if t.simulated]
            if sim:
                self.v("C10", "C10.simulation_not_cleared", sim[0], f"tags still simulated after stop: {sim}")
            self.stopped_at = w.tick_no
        if w.state == "Stopped" and getattr(self, "stopped_at", None) is not None and w.tick_no >= self.stopped_at:
            if w.tag("Run Id"):
                self.v("C10", "C10.run_id_not_cleared", "Run Id", f"Run Id {w.tag('Run Id')!r} after stop")


# ---------------------------------------------------------------------------------------------- C05
class C05Blocks(Oracle):
    """Active blocks form one ancestor chain; the Block tag names the innermost; End block ends exactly it."""

    def __init__(self, world, plan, res):
        super().__init__(world, plan, res)
        self.stack: list[str] = []
        self.ended: set[str] = set()
        self.tainted = ""
        self.ev_pos = 0
        self.tree = model.parse(plan["method"]) if plan.get("cfg", {}).get("wellformed") else None
        self.int_active: set[str] = set()
        self.discarded_tag = None
        self._index()

    def _index(self):
        self.by_name = {}
        self.node_by_id = {}
        if self.tree:
            for n in self.tree.walk():
                self.node_by_id[n.id] = n
                if n.kind == "Block":
                    self.by_name.setdefault(n.arg, n)

    def before_tick(self, w, inc):
        self.ev_pos = len(w.events)

    def after_edit(self, kind, expect, accepted, old, new):
        if accepted and self.tree is not None:
            self.tree = model.parse(new)
            self._index()

    def after_tick(self, w, inc):
        for e in w.events[self.ev_pos:]:
            if e[1] == "start" or e[1] == "stop":
                self.stack = []
                self.ended = set()
                self.tainted = ""
                self.int_active = set()
            elif e[1] == "scope_activate" and e[3] in ("Watch", "Alarm"):
                self.int_active.add(e[2])
            elif e[1] == "scope_end" and e[3] in ("Watch", "Alarm"):
                self.int_active.discard(e[2])
            elif e[1] == "scope_start" and e[3] in ("Watch", "Alarm") and e[2] in self.int_active:
                # the interrupt of this Watch/Alarm is registered again (by a re-armed Alarm around it) while its
                # previous instance is still running its body: the engine drops the previous instance
                self.int_active.discard(e[2])
                owner = self.node_by_id.get(e[2]) if self.tree is not None else None
                if owner is None:
                    if self.stack:
                        self.tainted = "@after_interrupt_reregistered"
                else:
                    inside = {c.arg for c in owner.walk() if c.kind == "Block"}
                    dropped = [b for b in self.stack if b in inside]
                    if dropped:
                        self.v("C05", "C05.active_block_discarded_by_reregistered_interrupt", "Block",
                               f"{e[3]} {e[2]} was registered again while its body was running inside block(s) {dropped}: "
                               f"the block(s) never end and the Block tag keeps naming them")
                        self.stack = [b for b in self.stack if b not in inside]
                        self.discarded_tag = w.tag("Block")
            elif e[1] == "block_start" and e[2] != "root":
                self.discarded_tag = None
                name = e[2]
                node = self.by_name.get(name)
                if node is not None and "edit" not in w.ctx_flags:
                    anc = {a.arg for a in node.ancestors() if a.kind == "Block"}
                    bad = [b for b in self.stack if b not in anc]
                    if bad:
                        def owner(nd):      # the interrupt (Watch / Alarm) whose body opens the block; None = main path
                            return next((a.id for a in nd.ancestors() if a.kind in ("Watch", "Alarm")), None)
                        others = {owner(self.by_name[b]) for b in bad if b in self.by_name}
                        ctx = ""
                        if owner(node) is not None and others and owner(node) not in others and None not in others:
                            # two interrupts run at the same time and each opens a block of its own: the engine has one
                            # global block stack, the two blocks are active side by side (kept apart from the plain kind)
                            ctx = "@concurrent_interrupts"
                            self.tainted = "@after_concurrent_interrupt_blocks"
                        self.v("C05", "C05.block_started_beside_active_block" + ctx, "Block",
                               f"block {name} started while {bad} active; its ancestors are {sorted(anc)}")
                self.stack.append(name)
            elif e[1] == "block_end":
                name = e[2]
                if name in self.ended and name not in self.stack:
                    # a block that has already ended is ended again (the End block of its own body after an End block(s)
                    # from a Watch): everything the oracle sees afterwards is a consequence of that
                    self.v("C05", "C05.block_ended_twice", "Block", f"block {name} ended a second time (active chain {self.stack})")
                    self.tainted = "@after_double_end"
                    continue
                self.ended.add(name)
                if not self.stack:
                    self.v("C05", "C05.block_end_without_active_block" + self.tainted, "Block", f"block_end {name} with no active block")
                elif self.stack[-1] != name:
                    self.v("C05", "C05.ended_block_not_innermost" + self.tainted, "Block",
                           f"block {name} ended while active chain is {self.stack}")
                    if name in self.stack:
                        self.stack.remove(name)
                else:
                    self.stack.pop()
        # one End block ends one block: when several blocks end in one tick, as many End block instructions took effect in
        # it (End blocks, Stop and Restart end all of them)
        ends_now = [e for e in w.events[self.ev_pos:] if e[1] == "block_end" and e[2] != "root"]
        if len(ends_now) > 1 and self.tree is not None and "edit" not in w.ctx_flags and \
                not any(e[1] in ("stop", "start") for e in w.events[self.ev_pos:]):
            recs = live_records(w)
            n_end_block = 0
            end_blocks = False
            for nid, sts in recs.items():
                nd = self.node_by_id.get(nid)
                if nd is None or nd.kind not in ("End block", "End blocks"):
                    continue
                hit = sum(1 for st in sts if st[0] == "started" and st[1] == w.tick_no)
                if nd.kind == "End blocks" and hit:
                    end_blocks = True
                n_end_block += hit
            if not end_blocks and len(ends_now) > n_end_block and not self.tainted:
                self.v("C05", "C05.more_blocks_ended_than_end_block_instructions", "End block",
                       f"tick {w.tick_no}: blocks {[e[2] for e in ends_now]} ended, {n_end_block} End block instruction(s) "
                       f"took effect in it")
            else:
                self.res.probe("several_block_ends_in_one_tick_checked")
        if "edit" in w.ctx_flags:
            return      # a live edit re-runs instructions on this tree (recorded under C01): block events repeat
        tagv = w.tag("Block")
        want = self.stack[-1] if self.stack else None
        if self.discarded_tag is not None and (tagv or None) == (self.discarded_tag or None):
            return      # reported above: the tag keeps naming the discarded block until another block starts or ends
        if (tagv or None) != (want or None) and w.state not in ("Stopped", "Restarting"):
            self.v("C05", "C05.block_tag_mismatch" + self.tainted, "Block",
                   f"Block tag = {tagv!r}, active chain {self.stack}")
        self.res.state("blk", len(self.stack))


# ---------------------------------------------------------------------------------------------- C13
class C13Errors(Oracle):
    """Ticks never raise (recorded by the world); a failing instruction pauses the run with Method Status
    Error and is marked failed; Stop stays responsive."""

    def __init__(self, world, plan, res):
        super().__init__(world, plan, res)
        self.ev_pos = 0
        self.hw_faulty = any(op[0] == "hwfault" for op in plan["ops"])

    def before_tick(self, w, inc):
        self.ev_pos = len(w.events)
        self.prev_state = w.state
        self.prev_failed = set(w.method_state().failed_line_ids)

    def after_tick(self, w, inc):
        evs = w.events[self.ev_pos:]
        errs = [e for e in evs if e[1] == "method_error"]
        now_failed = set(w.method_state().failed_line_ids)
        newly = now_failed - self.prev_failed
        # a user Stop / Restart that is executing (accepted at most two ticks ago) cancels every command, including a
        # timed Pause whose cancellation unpauses: the run is on its way to Stopped, not "Running with an error"
        stopping = any(r[1] == "control" and r[2] in ("Stop", "Restart") and r[3] and w.tick_no - r[0] <= 2 for r in w.requests)
        if newly and w.state in ("Running", "Holding") and "edit" not in w.ctx_flags and not stopping and \
                not any(e[1] in ("start", "stop") for e in evs):
            self.v("C13", "C13.failed_instruction_did_not_pause", w.state,
                   f"line(s) {sorted(newly)} failed in tick {w.tick_no} but System State is {w.state} "
                   f"(Method Status {w.tag('Method Status')!r})")
        if errs:
            self.res.probe("method_error")
            if w.state not in ("Paused", "Stopped", "Restarting") and not stopping:
                self.v("C13", "C13.error_did_not_pause", errs[0][2], f"method error {errs[0][2]} but state {w.state}")
            elif w.state == "Paused" and w.tag("Method Status") != "Error":
                self.v("C13", "C13.error_status_not_set", errs[0][2],
                       f"method error {errs[0][2]} paused the run but Method Status = {w.tag('Method Status')!r}")
            external = any(r[1] in ("inject", "cancel", "force") or (r[1] == "control" and r[2] not in (
                "Start", "Stop", "Pause", "Unpause", "Hold", "Unhold", "Restart")) for r in w.requests)
            if errs[0][2] == "NodeInterpretationError" and not self.hw_faulty and not external and \
                    "edit" not in w.ctx_flags and w.state == "Paused" and w.tag("Method Status") == "Error":
                failed = set(w.method_state().failed_line_ids)
                injected = set(w.method_state().injected_line_ids)
                if not (failed - self.prev_failed) and not failed:
                    self.v("C13", "C13.failed_line_not_marked", "method_state",
                           "an instruction failed but no line is marked failed in the method state")


# ---------------------------------------------------------------------------------------------- C02
class C02Order(Oracle):
    """No edits / Restart: tokens outside Alarm and macro bodies at most once; siblings in source order; in the
    timing-independent fragment the main-path effect sequence equals the reference walk."""

    def __init__(self, world, plan, res):
        super().__init__(world, plan, res)
        self.tree = model.parse(plan["method"])
        self.enabled = not any(op[0] in ("edit", "inject", "cancel", "force") for op in plan["ops"]) and \
            not any(op[0] == "user" and op[1] in ("Restart", "Stop") for op in plan["ops"]) and \
            not any(n.kind in ("Restart", "Stop") for n in self.tree.walk())
        self.token_nodes: dict[tuple, list[model.MNode]] = {}
        for n in self.tree.walk():
            if n.token:
                self.token_nodes.setdefault(n.token, []).append(n)

    def _repeated_bodies(self, w):
        """A body that runs again (Alarm re-armed, macro called again) runs its lines in order, each once per invocation:
        for a body of plain effect lines whose tokens occur nowhere else, the effect stream restricted to those tokens is
        body, body, ..., ending with a (possibly empty) prefix of the body."""
        if any(e[1] == "method_error" for e in w.events) or w.ctx_flags & {"cf", "edit", "err"}:
            return
        if any(op[0] == "user" and op[1] in ("Pause", "Hold", "Stop", "Restart") for op in self.plan["ops"]):
            return
        calls_from_interrupts = any(c.kind == "Call macro" and any(a.kind in ("Watch", "Alarm") for a in c.ancestors())
                                    for c in self.tree.walk())
        for sc in self.tree.walk():
            if sc.kind not in ("Alarm", "Macro") or (sc.kind == "Macro" and calls_from_interrupts):
                continue
            if any(a.kind in ("Alarm", "Macro", "Watch", "Block") for a in sc.ancestors()):
                continue
            kids = [c for c in sc.children if not c.is_ws]
            if len(kids) < 2 or any(c.children or c.kind in ("End block", "End blocks", "Stop", "Restart", "Pause", "Hold",
                                                            "Call macro", "Wait") and c.token is None and c.kind != "Wait"
                                     for c in kids):
                continue
            if any(c.threshold is not None for c in kids):
                continue
            seq = [c.token for c in kids if c.token]
            if len(seq) < 2 or len(set(seq)) != len(seq) or any(len(self.token_nodes[t]) != 1 for t in seq):
                continue
            if sc.kind == "Macro" and sum(1 for n in self.tree.walk() if n.kind == "Macro" and n.arg == sc.arg) != 1:
                continue
            # a command of the body may legitimately be cancelled before its first execution by a request of the same
            # name or of an overlapping command elsewhere in the method (or by a second one in the body itself)
            groups = [{"LongA", "LongB"}, {"LongB", "LongC"}]
            names = [c.kind for c in kids if c.kind in model.UOD]
            rivals = set(names)
            for g in groups:
                if g & set(names):
                    rivals |= g
            # (rivals inside the body itself are fine: one sequential flow visits one line per tick, so two of its
            # requests never meet in one tick and each command gets its first execution before the next one replaces it)
            if any(n.kind in rivals and n.parent is not sc for n in self.tree.walk()):
                continue
            can_abandon = any(n.kind in ("End block", "End blocks") and any(a.kind in ("Watch", "Alarm") for a in n.ancestors())
                              for n in self.tree.walk())
            got = [(e[1], e[2]) for e in w.effects if (e[1], e[2]) in set(seq)]
            pos = -1
            for i, tok in enumerate(got):
                nxt = (pos + 1) % len(seq)
                if tok == seq[nxt]:
                    pos = nxt
                    continue
                if can_abandon and tok == seq[0]:
                    pos = 0         # the invocation under way was abandoned (its block was ended by an interrupt)
                    continue
                if True:
                    self.v("C02", "C02.repeated_body_out_of_sequence", sc.kind,
                           f"body of {sc.text.strip()!r} is {seq}; its effects came as {got[max(0, i - 4):i + 2]} (position {i}): "
                           f"{tok} follows {seq[pos] if pos >= 0 else None}, expected {seq[nxt]}")
                    return
            if got:
                self.res.probe("repeated_body_sequence_checked")

    def at_end(self, w):
        if not self.enabled:
            return
        self._repeated_bodies(w)
        fx = [(e[0], (e[1], e[2])) for e in w.effects]
        first: dict[tuple, int] = {}
        count: dict[tuple, int] = {}
        for i, (tick, tok) in enumerate(fx):
            count[tok] = count.get(tok, 0) + 1
            first.setdefault(tok, i)
        for tok, nodes in self.token_nodes.items():
            if len(nodes) != 1:
                continue    # Valve/Ramp tokens may legitimately repeat across lines
            n = nodes[0]
            if not in_repeating_scope(n) and count.get(tok, 0) > 1:
                self.v("C02", "C02.instruction_ran_twice", n.kind, f"{n.text.strip()!r} ({n.id}) produced its effect {count[tok]} times")
        # sibling order on unique tokens, same parent, parent not a repeating scope
        for n in self.tree.walk():
            kids = [c for c in n.children if c.token and len(self.token_nodes[c.token]) == 1]
            if in_repeating_scope(n) or n.kind in ("Alarm", "Macro"):
                continue
            for a, b in zip(kids, kids[1:]):
                if a.token in first and b.token in first and first[b.token] < first[a.token]:
                    self.v("C02", "C02.siblings_out_of_order", n.kind,
                           f"{b.text.strip()!r} took effect before its earlier sibling {a.text.strip()!r}")
        # an instruction (in particular a macro call, block or interrupt) completes only after it started
        nodes = {n.id: n for n in self.tree.walk()}
        for nid, states in records(w).items():
            n = nodes.get(nid)
            if n is None or n.kind not in ("Call macro", "Block"):
                continue        # the clause names the enclosing block or macro call; Watch/Alarm have two log items
            per: dict[str, list[str]] = {}
            for (name, tick, t, inst) in states:
                per.setdefault(inst, []).append(name)
            for inst, names in per.items():
                if "completed" in names and "started" not in names and "cancelled" not in names and "failed" not in names:
                    ctx = ""
                    if n.kind == "Call macro":
                        # another call of the same macro under way at the same time (two interrupts)?
                        mine = [(tk) for (nm, tk, t, i2) in states if i2 == inst]
                        lo, hi = min(mine), max(mine)
                        for oid, ost in records(w).items():
                            on = nodes.get(oid)
                            if on is None or on.kind != "Call macro" or on.arg != n.arg:
                                continue
                            # (the same call line counts too: a Watch that a re-arming Alarm registers once per activation
                            # calls the macro from two interrupt instances at overlapping times)
                            ost = [x for x in ost if not (on is n and x[3] == inst)]
                            ticks = [tk for (nm, tk, t, i2) in ost]
                            done = [tk for (nm, tk, t, i2) in ost if nm == "completed"]
                            if ticks and min(ticks) <= hi and (not done or max(done) >= lo):
                                ctx = "@concurrent_calls_of_one_macro"
                    self.v("C02", "C02.completed_without_having_started" + ctx, n.kind,
                           f"{n.text.strip()!r} ({nid}) has an invocation that completed without ever starting: {names}")
        # trailing whitespace of a scope is never passed
        ms = getattr(w, "final_method_state", None) or w.method_state()
        passed = set(ms.started_line_ids) | set(ms.executed_line_ids)
        last_ws_ids = set()
        for lid, content in reversed(self.plan["method"]):
            if content.strip() == "" or content.strip().startswith("#"):
                last_ws_ids.add(lid)
            else:
                break
        # the engine's parser attaches whitespace at the physical end of the method to the scope of the last instruction,
        # whatever its indentation. When that instruction sits in a Watch / Alarm / Macro body, the whitespace is the end of
        # that body - which runs (again) with the body - and not the end of the main scope: outside the clause as checked
        by_id = {x.id: x for x in self.tree.walk()}
        last_instr = next((by_id.get(lid) for lid, content in reversed(self.plan["method"])
                           if content.strip() != "" and not content.strip().startswith("#")), None)
        if last_instr is not None and any(a.kind in ("Watch", "Alarm", "Macro") for a in [last_instr] + list(last_instr.ancestors())):
            last_ws_ids = set()
        for n in self.tree.walk():
            trailing = [c for c in n.children if c.id in last_ws_ids]     # whitespace at the physical end of the method
            has_instruction = any(not x.is_ws for x in self.tree.walk() if x.kind != "root")
            for c in trailing:
                # (a method that consists of whitespace only is outside the clause: what matters there is that appended
                # lines still run, which C01 checks)
                if c.id in passed and n.kind == "root" and has_instruction:
                    self.v("C02", "C02.trailing_whitespace_passed", c.kind,
                           f"trailing {c.kind} line {c.id} of the method is reported started/executed")
        # reference walk (fragment)
        exp = self._reference()
        if exp is not None and getattr(w, "quiescent", False):
            got = [tok for _, tok in fx]
            if got != exp:
                ctx = "@macro_defined_in_ended_block" if macro_called_outside_its_block(self.tree) else ""
                self.v("C02", "C02.effect_sequence_differs_from_reference" + ctx, "main",
                       f"effects {got[:12]} expected {exp[:12]}")
            else:
                self.res.probe("reference_walk_matched")

    def _reference(self):
        """Source-order expansion for methods made only of Mark, probe commands, Wait, Base, Block(+End block last),
        Macro/Call macro, Info, whitespace. Returns None outside that fragment."""
        macros: dict[str, model.MNode] = {}
        out: list[tuple] = []
        ok = True
        stack: list[str] = []

        def walk(nodes):
            nonlocal ok
            for n in nodes:
                if not ok:
                    return
                if n.is_ws or n.kind in ("Base", "Wait", "Info", "Warning", "Notify", "Batch", "Increment run counter",
                                         "Run counter"):
                    continue
                if n.threshold is not None:
                    pass
                if n.token:
                    if n.kind in ("Boom", "BoomInit", "BadArgs"):
                        ok = False
                        return
                    out.append(n.token)
                elif n.kind == "Block":
                    real = [c for c in n.children if not c.is_ws]
                    if not real or real[-1].kind != "End block" or any(c.kind in ("End block", "End blocks") for c in real[:-1]):
                        ok = False
                        return
                    walk(n.children)
                elif n.kind == "End block":
                    continue
                elif n.kind == "Macro":
                    macros[n.arg] = n
                elif n.kind == "Call macro":
                    # the callee is resolved by name when the call executes: the definition in force at that moment,
                    # also for a call inside another macro's body; a cycle ends in an error pause (outside the fragment)
                    m = macros.get(n.arg)
                    if m is None or n.arg in stack or len(stack) > 6:
                        ok = False
                        return
                    stack.append(n.arg)
                    walk(m.children)
                    stack.pop()
                else:
                    ok = False
                    return
        walk(self.tree.children)
        return out if ok else None


# ---------------------------------------------------------------------------------------------- C03
class C03Thresholds(Oracle):
    """Never early: an instruction with threshold T starts only when its scope clock (as the interpreter saw it,
    i.e. before that tick's clock update) has reached T. Wait: the next instruction starts d .. d+0.1 s later."""

    UNIT = {"s": 1.0, "min": 60.0, "h": 3600.0}

    def __init__(self, world, plan, res):
        super().__init__(world, plan, res)
        self.tree = model.parse(plan["method"])
        self.nodes = {n.id: n for n in self.tree.walk()}
        self.before: dict[int, dict[str, Any]] = {}
        self.exact = all(op[0] != "tick" or abs(op[2] - 0.1) < 1e-12 for op in plan["ops"])
        self.no_requests = not any(op[0] in ("edit", "inject", "cancel", "force") for op in plan["ops"])
        self.disturbed_ticks: set[int] = set()
        self.calls_from_interrupts = any(c.kind == "Call macro" and any(a.kind in ("Watch", "Alarm") for a in c.ancestors())
                                         for c in self.tree.walk())

    def before_tick(self, w, inc):
        self.before[w.tick_no] = {"BT": w.tag("Block Time"), "ST": w.tag("Scope Time"), "blk": w.tag("Block"),
                                     "base": w.tag("Base"), "state": w.state,
                                     "AV": w.engine.tags["Accumulated Volume"].get_value(),
                                     "BV": w.engine.tags["Block Volume"].get_value(),
                                     "ACV": w.engine.tags["Accumulated CV"].get_value(),
                                     "BCV": w.engine.tags["Block CV"].get_value()}

    root_clock = None            # independent model of the root scope clock: time spent Running since it was activated
    ev_pos = 0

    def after_tick(self, w, inc):
        if w.state != "Running":
            self.disturbed_ticks.add(w.tick_no)
        b = self.before.get(w.tick_no)
        for e in w.events[self.ev_pos:]:
            if e[1] == "start":
                self.root_clock = None
            if e[1] == "scope_activate" and e[3] == "Program":
                self.root_clock = 0.0
        self.ev_pos = len(w.events)
        if b is not None:
            b["model_root"] = self.root_clock
        if self.root_clock is not None and b is not None and b["state"] == "Running":
            self.root_clock += inc

    def _model_check(self, w, recs):
        """Root-level thresholded instructions against the model clock (catches a scope clock that runs while it must not)."""
        for n in self.tree.children:
            if n.threshold is None or n.kind in ("Block",):
                continue
            states = recs.get(n.id, [])
            started = [x for x in states if x[0] == "started"]
            if not started or any(x[0] == "forced" for x in states):
                continue
            k = started[0][1]
            best = None
            for kk in (k, k - 1, k + 1):
                b = self.before.get(kk)
                if b is None or b.get("model_root") is None or b["base"] not in self.UNIT or b["blk"] not in (None, ""):
                    continue
                best = max(best or 0.0, b["model_root"])
                base = b["base"]
            if best is None:
                continue
            need = n.threshold * self.UNIT[base]
            if best + 0.1 + 1e-6 < need:
                self.v("C03", "C03.started_before_threshold_by_model_clock", n.kind,
                       f"{n.text.strip()!r} started in tick {k} after only {best:.2f} s of Running time in its scope "
                       f"(threshold {need:g} s; Scope Time tag said {self.before.get(k, {}).get('ST')})")
            else:
                self.res.probe("threshold_checked_by_model_clock")

    def at_end(self, w):
        recs = records(w)
        if not any(op[0] in ("edit", "inject", "cancel", "force") for op in self.plan["ops"]) and \
                not any(op[0] == "user" and op[1] in ("Stop", "Restart") for op in self.plan["ops"]):
            self._model_check(w, recs)
        if not self.no_requests:
            return
        for nid, states in recs.items():
            n = self.nodes.get(nid)
            if n is None or n.threshold is None:
                continue
            in_macro_only = any(a.kind == "Macro" for a in n.ancestors()) and not any(a.kind in ("Alarm", "Watch")
                                                                                   for a in n.ancestors())
            if (in_repeating_scope(n) and not (in_macro_only and not self.calls_from_interrupts)) or \
                    any(a.kind in ("Watch",) for a in n.ancestors()):
                inter = True
            else:
                inter = False
            started = [s for s in states if s[0] == "started"]
            forced = any(s[0] == "forced" for s in states)
            if not started or forced:
                continue
            # a line of a macro body is judged in every invocation (the base in force may differ from call to call)
            for k in ([s[1] for s in started] if in_macro_only and not inter else [started[0][1]]):
                self._never_early(n, states, k, inter)
        self._wait_durations(w, recs)

    def _never_early(self, n, states, k, inter):
        if True:
            if True:
                pass
            # the threshold test that let the instruction pass ran in tick k or k-1 (entered one tick, effect the next)
            ok = False
            detail = ""
            for kk in (k, k - 1):
                b = self.before.get(kk)
                if b is None:
                    continue
                base = b["base"]
                if base in self.UNIT:
                    clock = b["BT"] if b["blk"] not in (None, "") else b["ST"]
                    have = clock
                    need = n.threshold * self.UNIT[base]
                elif base == "L":
                    have = b["BV"] if b["blk"] not in (None, "") else b["AV"]
                    need = n.threshold
                elif base == "CV":
                    have = b["BCV"] if b["blk"] not in (None, "") else b["ACV"]
                    need = n.threshold
                else:
                    ok = True
                    break
                # the interpreter sees the clock after the previous tick's update, plus nothing: allow one increment
                if have is not None and have + 1e-6 >= need - 1e-9:
                    ok = True
                    break
                detail = f"clock {have} (base {base}, block {b['blk']!r}) at tick {kk}, threshold {need}"
            if not ok and not inter:
                self.v("C03", "C03.started_before_threshold", n.kind,
                       f"{n.text.strip()!r} started in tick {k}: {detail}")
            elif ok:
                self.res.probe("threshold_checked")
                if not inter and self.exact and n.kind != "Block":     # a Block may also wait for the block lock
                    self._not_late(n, states, k)
    def _wait_durations(self, w, recs):
        if not self.exact:
            return
        # Wait durations (exact 0.1 s ticks, main path, no pause/hold/error overlap)
        for nid, states in recs.items():
            n = self.nodes.get(nid)
            if n is None or n.kind != "Wait" or in_repeating_scope(n) or any(a.kind == "Watch" for a in n.ancestors()) \
                    or n.threshold is not None:
                continue
            m = re.match(r"^([0-9.]+)\s*(s|min|h)$", n.arg.strip())
            st = states[:1]          # run-log start time = time of the first recorded state of the invocation
            if not m or not st or any(s[0] == "forced" for s in states):
                continue
            d = float(m.group(1)) * self.UNIT[m.group(2)]
            sibs = list(n.parent.children)       # whitespace lines between cost ticks of their own: only direct neighbours
            i = sibs.index(n)
            if i + 1 < len(sibs) and sibs[i + 1].is_ws:
                continue
            order = {lid: k for k, (lid, _) in enumerate(self.plan["method"])}
            if i + 1 < len(sibs) and order.get(sibs[i + 1].id, -1) != order.get(n.id, -9) + 1:
                continue        # something (a blank line attached to another scope) stands between them in the text
            if i + 1 >= len(sibs):
                continue
            nxt = recs.get(sibs[i + 1].id)
            if not nxt:
                continue
            nst = nxt[:1]
            if not nst or sibs[i + 1].threshold is not None or sibs[i + 1].kind in ("Block", "Watch", "Alarm", "Macro"):
                continue
            t0, t1 = st[0][2], nst[0][2]
            k0, k1 = st[0][1], nst[0][1]
            # "after the Wait started": the lower bound counts from the invocation's Started state (a Wait that was reached
            # in the tick before a pause starts when the run resumes), the upper bound from its first recorded state
            inst0 = st[0][3] if len(st[0]) > 3 else None
            started = next((x for x in states if x[0] == "started" and (inst0 is None or x[3] == inst0)), None)
            ts = started[2] if started is not None else t0
            if t1 - ts < d - 1e-6:
                self.v("C03", "C03.wait_too_short", "Wait",
                       f"{n.text.strip()!r} started {ts:.3f}, next instruction started {t1:.3f}: {t1 - ts:.3f} s < {d} s")
            elif not any(t in self.disturbed_ticks for t in range(k0 - 1, k1 + 1)) and t1 - t0 > d + 0.2 + 1e-6:
                # one tick interval, plus one more because tick times are binary floats: a Wait whose end falls exactly
                # on a tick boundary may see tick_time a few ulp below it and take one more tick
                self.v("C03", "C03.wait_too_long", "Wait",
                       f"{n.text.strip()!r}: next instruction started {t1 - t0:.3f} s after the Wait started (d={d})")
            else:
                self.res.probe("wait_checked")


        self._repeated_waits(w, recs)

    def _not_late(self, n, states, k):
        """Exact dispatch, time base s only: the instruction begins to wait in tick a (state awaitingthreshold); it passes in
        the first tick j >= a whose clock - as the interpreter sees it, before that tick's clock update - is not below the
        threshold (the engine compares the decimal strings), and it starts in tick j + 1. Judged only when every tick from
        a to k was a Running tick."""
        import decimal
        inst = next((x[3] for x in states if x[0] == "started" and x[1] == k), None)
        aw = [x for x in states if x[0] == "awaitingthreshold" and x[3] == inst]
        if not aw or len([x for x in states if x[0] == "started" and x[3] == inst]) != 1:
            return
        a = aw[0][1]
        if any(t in self.disturbed_ticks for t in range(a - 1, k + 1)):
            return
        j_star = None
        for j in range(a, k + 1):
            b = self.before.get(j)
            if b is None or b["base"] != "s":
                return
            have = b["BT"] if b["blk"] not in (None, "") else b["ST"]
            try:
                reached = not (decimal.Decimal(str(have)) < decimal.Decimal(str(n.threshold)))
            except Exception:
                return
            if reached:
                j_star = j
                break
        if j_star is None:
            return
        if k > j_star + 1:
            self.v("C03", "C03.started_later_than_threshold", n.kind,
                   f"{n.text.strip()!r} waited from tick {a}; its clock reached the threshold {n.threshold} s in tick {j_star} "
                   f"({self.before[j_star]['BT'] if self.before[j_star]['blk'] else self.before[j_star]['ST']}), "
                   f"it started in tick {k} instead of {j_star + 1}")
        else:
            self.res.probe("threshold_not_late_checked")

    def _repeated_waits(self, w, recs):
        """Every invocation of a Wait (macro called again, alarm body run again) lasts its duration: for each invocation
        of the Wait, the first later invocation of the directly following line starts no earlier than d after it."""
        calls_from_interrupts = any(c.kind == "Call macro" and any(a.kind in ("Watch", "Alarm") for a in c.ancestors())
                                    for c in self.tree.walk())
        order = {lid: k for k, (lid, _) in enumerate(self.plan["method"])}
        for nid, states in recs.items():
            n = self.nodes.get(nid)
            if n is None or n.kind != "Wait" or n.threshold is not None or not in_repeating_scope(n):
                continue
            if calls_from_interrupts and any(a.kind == "Macro" for a in n.ancestors()):
                continue      # two interrupts may walk one macro body at overlapping times (known finding C02@concurrent)
            m = re.match(r"^([0-9.]+)\s*(s|min|h)$", n.arg.strip())
            if not m:
                continue
            d = float(m.group(1)) * self.UNIT[m.group(2)]
            sibs = list(n.parent.children)
            i = sibs.index(n)
            if i + 1 >= len(sibs) or sibs[i + 1].is_ws or order.get(sibs[i + 1].id, -1) != order.get(n.id, -9) + 1:
                continue
            nx = sibs[i + 1]
            if nx.threshold is not None or nx.kind in ("Block", "Watch", "Alarm", "Macro"):
                continue

            def first_per_instance(sts):
                out: dict[str, tuple[float, bool]] = {}
                for name, _tick, t, inst in sts:
                    if inst not in out:
                        out[inst] = (t, False)
                    if name in ("forced", "cancelled"):
                        out[inst] = (out[inst][0], True)
                return sorted(out.values())
            ws = first_per_instance(states)
            xs = first_per_instance(recs.get(nx.id, []))
            for j, (t0, skipped) in enumerate(ws):
                if skipped:
                    continue
                t_next = ws[j + 1][0] if j + 1 < len(ws) else float("inf")
                later = [t for t, _ in xs if t0 < t < t_next]
                if not later:
                    continue
                if later[0] - t0 < d - 1e-6:
                    self.v("C03", "C03.wait_too_short_in_repeated_invocation", "Wait",
                           f"invocation {j + 1} of {n.text.strip()!r} started {t0:.3f}, the next line {nx.text.strip()!r} "
                           f"started {later[0]:.3f}: {later[0] - t0:.3f} s < {d} s")
                    return
                self.res.probe("repeated_wait_checked")


# ---------------------------------------------------------------------------------------------- C04
class C04Interrupts(Oracle):
    """Watch body runs at most once and only after its condition held (or it was forced); never after cancel or
    after its block ended; Alarm invocations are sequential and re-arm."""

    PV = {"PV1", "PV2", "LVL"}

    def __init__(self, world, plan, res):
        super().__init__(world, plan, res)
        self.tree = model.parse(plan["method"])
        self.watches = [n for n in self.tree.walk() if n.kind in ("Watch", "Alarm")]
        self.cond_true_ticks: dict[str, list[int]] = {n.id: [] for n in self.watches}
        self.registered: dict[str, int] = {}
        self.forced: dict[str, int] = {}        # node id -> number of accepted force requests
        self.rejected_force = False
        self.cancelled_at: dict[str, int] = {}
        self.enabled = not any(op[0] in ("edit",) for op in plan["ops"]) and \
            not any(op[0] == "user" and op[1] in ("Restart",) for op in plan["ops"]) and \
            not any(n.kind in ("Restart",) for n in self.tree.walk())
        self.ev_pos = 0
        self.conds = {n.id: model.cond_parse(n.arg) for n in self.watches}
        self.running_true_streak: dict[str, int] = {}
        self.lost_reported: set[str] = set()
        self.live_ok = self.enabled and plan.get("cfg", {}).get("wellformed", False) and \
            not any(op[0] in ("cancel", "force", "inject", "edit") for op in plan["ops"])
        self.activated: dict[str, list[int]] = {}
        self.cancelled_offered_at: dict[str, int] = {}

    def before_tick(self, w, inc):
        self.ev_pos = len(w.events)
        self.pre = {"Run Time": w.tag("Run Time"), "Block Time": w.tag("Block Time"), "Run Counter": w.tag("Run Counter"),
                    "state": w.state}

    offered_now = False

    def before_cancel_force(self, what, item, target_id):
        self.offered_now = item is not None and what == "cancel" and bool(item.cancellable)

    def after_cancel_force(self, what, item, target_id, ok):
        if what == "force" and not ok:
            self.rejected_force = True     # a rejected request that still flags the node is C12's business
        if not ok or item is None:
            return
        name = item.name
        same = [n for n in self.watches if name.strip() == f"{n.kind}: {n.arg}".strip()]
        for n in same:          # several instructions with the same text: the run-log item could be any of them
            if True:
                if what == "force":
                    self.forced[n.id] = self.forced.get(n.id, 0) + 1
                elif len(same) == 1:
                    self.cancelled_at.setdefault(n.id, self.w.tick_no)
                    if self.offered_now:
                        self.cancelled_offered_at.setdefault(n.id, self.w.tick_no)

    def after_tick(self, w, inc):
        for e in w.events[self.ev_pos:]:
            if e[1] == "scope_start" and e[3] in ("Watch", "Alarm"):
                self.registered.setdefault(e[2], w.tick_no)
            if e[1] == "scope_activate" and e[3] in ("Watch", "Alarm"):
                self.activated.setdefault(e[2], []).append(w.tick_no)
        for n in self.watches:
            c = self.conds[n.id]
            if c is None:
                continue
            tag = c[0]
            if tag in self.PV:
                sim = w.engine.tags[tag]
                val = sim.get_value()         # what the interpreter compared (simulated value if simulated)
            elif tag in ("Run Time", "Block Time", "Run Counter"):
                val = self.pre[tag]
            else:
                continue
            try:
                truth = model.cond_eval(c, float(val))
            except Exception:
                continue
            if truth:
                self.cond_true_ticks[n.id].append(w.tick_no)
            # C05 "exactly": a Watch that is registered and pending is not ended by the End block of a block it does not
            # belong to - when its condition then holds over a stretch of Running ticks, it starts
            if n.kind != "Watch" or not self.live_ok or n.id in self.lost_reported:
                continue
            r = self.registered.get(n.id)
            if r is None or n.id in self.activated or n.id in self.cancelled_at or n.id in self.forced:
                continue
            if truth and w.state == "Running" and self.pre["state"] == "Running" and not w.engine.has_error_state() \
                    and tag != "Block Time":
                self.running_true_streak[n.id] = self.running_true_streak.get(n.id, 0) + 1
            else:
                self.running_true_streak[n.id] = 0
            if self.running_true_streak[n.id] >= 10:
                own = {a.arg for a in n.ancestors() if a.kind == "Block"}
                ends = [e for e in w.events if e[1] == "block_end" and e[0] >= r]
                if any(e[2] in own for e in w.events if e[1] == "block_end"):
                    self.lost_reported.add(n.id)       # its own block has ended: legitimately gone
                    continue
                other = [e for e in ends if e[2] not in own]
                if other and not in_repeating_scope(n) and not any(a.kind == "Macro" for a in n.ancestors()):
                    self.lost_reported.add(n.id)
                    self.v("C05", "C05.pending_watch_lost_at_end_of_other_block", "Watch",
                           f"Watch {n.arg!r} ({n.id}) was registered in tick {r} and belongs to block(s) {sorted(own) or 'none'}; "
                           f"block {other[0][2]!r} ended in tick {other[0][0]}; the condition has now held for 10 Running ticks "
                           f"and the Watch has not started")

    def at_end(self, w):
        if not self.enabled:
            return
        for n in self.watches:
            acts = self.activated.get(n.id, [])
            c = self.conds[n.id]
            if n.kind == "Watch" and len(acts) > 1 and not in_repeating_scope(n):
                self.v("C04", "C04.watch_body_ran_twice", "Watch", f"Watch {n.arg!r} ({n.id}) activated in ticks {acts}")
            if c is None or c[0] not in self.PV | {"Run Time", "Block Time", "Run Counter"}:
                continue
            grants = self.forced.get(n.id, 0)
            for a in acts:
                trues = self.cond_true_ticks[n.id]
                # the statement: "only after a tick in which its condition evaluated true" (any earlier tick), or forced:
                # each accepted force request permits one activation without the condition
                ok = any(t <= a for t in trues)
                if not ok and grants > 0:
                    grants -= 1
                    ok = True
                if not ok and not self.rejected_force:
                    # the force flag lives on the node: when a re-arming Alarm has registered the Watch more than once, one
                    # accepted force request lets every pending invocation through (kept apart from the plain kind)
                    ctx = "@force_in_repeating_scope" if self.forced.get(n.id, 0) > 0 and in_repeating_scope(n) else ""
                    self.v("C04", "C04.body_ran_without_condition" + ctx, n.kind,
                           f"{n.kind} {n.arg!r} activated in tick {a}; the harness saw the condition true only in ticks "
                           f"{trues[:6]} (accepted force requests for it: {self.forced.get(n.id, 0)})")
                else:
                    self.res.probe("activation_checked")
            # a Watch / Alarm of a block that has ended never enters its body again (block entered once, outside
            # repeating scopes: its end is the end)
            blk = next((a for a in n.ancestors() if a.kind == "Block"), None)
            if blk is not None and not in_repeating_scope(blk) and not any(a.kind in ("Watch", "Alarm") for a in blk.ancestors()):
                starts = [e[0] for e in w.events if e[1] == "block_start" and e[2] == blk.arg]
                ends = [e[0] for e in w.events if e[1] == "block_end" and e[2] == blk.arg]
                if len(starts) == 1 and ends and "edit" not in w.ctx_flags:
                    # judged by what the body does (its Marks), not by the activation event: an aborted interrupt may
                    # still be "activated" with every child skipped
                    all_tokens = [x.token for x in self.tree.walk() if x.token]
                    toks = {c.token for c in n.walk() if c.token and c.token[0] == "mark" and all_tokens.count(c.token) == 1}
                    late = [(e[0], e[2]) for e in w.effects if (e[1], e[2]) in toks and e[0] > ends[0] + 1]
                    if late:
                        self.v("C04", "C04.body_ran_after_block_ended", n.kind,
                               f"{n.kind} {n.arg!r} belongs to block {blk.arg}, which ended in tick {ends[0]}; lines of its body "
                               f"took effect afterwards: {late[:6]}")
                    else:
                        self.res.probe("interrupt_of_ended_block_checked")
            co = self.cancelled_offered_at.get(n.id)
            # a Watch in a repeating scope is registered anew by every invocation of that scope: only activations that
            # follow the cancel without a new registration in between belong to the cancelled invocation
            regs = [e[0] for e in w.events if e[1] == "scope_start" and e[2] == n.id]
            # ... and a new registration needs a new activation of the enclosing Alarm: a registration event without one
            # is the cancelled invocation coming back to life, not a new invocation
            alarm_anc = [a.id for a in n.ancestors() if a.kind == "Alarm"]
            if alarm_anc:
                t0 = min(x for x in (co, self.cancelled_at.get(n.id)) if x is not None) if \
                    (co is not None or self.cancelled_at.get(n.id) is not None) else None
                if t0 is not None:
                    regs = [r for r in regs if r <= t0 or any(e[1] == "scope_activate" and e[2] in alarm_anc and t0 < e[0] <= r
                                                              for e in w.events)]
            late = [a for a in acts if co is not None and a > co and not any(co < r <= a for r in regs)]
            # the enclosing Alarm completed its body and re-armed within two ticks of the cancel: the re-arm resets the
            # body's nodes, cancelled flag included, before the waiting Watch has seen it (a defect of its own, kept apart)
            rearm_ctx = ""
            t_c = [x for x in (co, self.cancelled_at.get(n.id)) if x is not None]
            if alarm_anc and t_c and any(e[1] == "scope_end" and e[2] in alarm_anc and min(t_c) <= e[0] <= min(t_c) + 2
                                         for e in w.events):
                rearm_ctx = "@alarm_rearmed_right_after_cancel"
            if co is not None and late:
                # the cancel was offered by the run log at request time (tick co complete) and accepted, yet the body was
                # entered in a later tick
                self.v("C12", "C12.cancelled_watch_body_ran" + rearm_ctx, n.kind,
                       f"{n.kind} {n.arg!r}: cancel offered and accepted after tick {co}, body activated in ticks {late} "
                       f"(registrations {regs})")
            ca = self.cancelled_at.get(n.id)
            if ca is not None and any(a > ca + 1 and not any(ca < r <= a for r in regs) for a in acts):
                self.v("C04", "C04.body_ran_after_cancel" + rearm_ctx, n.kind,
                       f"{n.kind} {n.arg!r} cancelled in tick {ca} but activated in ticks {acts}")


# ---------------------------------------------------------------------------------------------- C41
class C41Macros(Oracle):
    """A macro call runs the latest executed definition once, in order; a cycle fails the call instead of recursing."""

    def __init__(self, world, plan, res):
        super().__init__(world, plan, res)
        self.tree = model.parse(plan["method"])
        self.enabled = not any(op[0] in ("edit", "inject", "cancel", "force") for op in plan["ops"]) and \
            not any(op[0] == "user" and op[1] in ("Restart", "Stop") for op in plan["ops"])

    def _recursion_check(self, w):
        """A call that would make a macro call itself, directly or indirectly, fails instead of recursing."""
        macros: dict[str, model.MNode] = {}
        for n in self.tree.walk():
            if n.kind == "Macro":
                macros[n.arg] = n          # the harness's methods define each recursive macro once
        edges = {name: {c.arg for c in mn.walk() if c.kind == "Call macro"} for name, mn in macros.items()}

        def reaches(a, b, seen=None):
            seen = seen or set()
            for x in edges.get(a, ()):
                if x == b or (x not in seen and reaches(x, b, seen | {x})):
                    return True
            return False
        cyclic = {name for name in macros if reaches(name, name)}
        if not cyclic:
            return
        self.res.probe("recursive_macro_methods")
        n_calls = sum(1 for n in self.tree.walk() if n.kind == "Call macro")
        count: dict[str, int] = {}
        for e in w.effects:
            if e[1] == "mark":
                count[e[2]] = count.get(e[2], 0) + 1
        def shape_of(name):
            calls = [x for x in macros[name].walk() if x.kind == "Call macro"]
            direct = [x for x in macros[name].children if x.kind == "Call macro"]
            if calls and not direct:
                return "nested"
            if direct and direct[0].arg != name and not reaches(direct[0].arg, name):
                return "not_first_call"
            return "direct_child"
        errors = [e for e in w.events if e[1] == "method_error"]
        for name in cyclic:
            marks = [c for c in macros[name].walk() if c.kind == "Mark"]
            entered = any(count.get(c.arg, 0) > 0 for c in marks)
            if entered and not errors and w.tick_no > 60 and not any(r[1] in ("edit", "inject") for r in w.requests):
                self.v("C41", "C41.recursive_macro_call_did_not_fail", shape_of(name),
                       f"macro {name} is on a call cycle and was entered, but no instruction failed in {w.tick_no} ticks "
                       f"(effects {[e[2] for e in w.effects][:8]})")
                return
        for name in cyclic:
            for c in macros[name].walk():
                if c.kind == "Mark" and count.get(c.arg, 0) > n_calls + 1:
                    shape = "nested" if any(a.kind in ("Block", "Watch", "Alarm") and a is not macros[name] for a in
                                            next(x for x in macros[name].walk() if x.kind == "Call macro").ancestors()
                                            if a is not macros[name] and a.kind != "root") else "direct_child"
                    first_calls = [x for x in macros[name].children if x.kind == "Call macro"]
                    if shape == "direct_child" and first_calls and not reaches(first_calls[0].arg, name) and first_calls[0].arg != name:
                        shape = "not_first_call"
                    self.v("C41", "C41.recursive_macro_call_not_rejected", shape,
                           f"macro {name} is on a call cycle, yet its body line {c.text.strip()!r} ran {count[c.arg]} times "
                           f"({n_calls} Call macro lines in the method): the call recursed instead of failing")
                    return

    def _cycle_closed_by_redefinition(self, w):
        """Top-level calls in document order against the definitions in force at each call: a call whose macro reaches
        itself under those definitions must fail before any line of that macro runs - so a body line that precedes the
        macro's first nested call runs exactly as often as the calls executed before that point expand to."""
        tops = [n for n in self.tree.children if not n.is_ws]
        if any(n.kind not in ("Macro", "Call macro", "Mark", "Wait", "Base") or n.threshold is not None for n in tops):
            return
        defs: dict[str, model.MNode] = {}
        execs: dict[str, int] = {}

        def callees(m):
            return [c for c in m.walk() if c.kind == "Call macro"]

        def reaches(a, b, seen=()):
            m = defs.get(a)
            if m is None:
                return False
            for c in callees(m):
                if c.arg == b or (c.arg not in seen and reaches(c.arg, b, seen + (c.arg,))):
                    return True
            return False

        def expand(name, depth=0):
            m = defs.get(name)
            if m is None or depth > 6:
                return
            execs[m.id] = execs.get(m.id, 0) + 1
            for c in callees(m):
                expand(c.arg, depth + 1)
        cyclic_call = None
        for n in tops:
            if n.kind == "Macro":
                defs[n.arg] = n
            elif n.kind == "Call macro":
                if n.arg not in defs:
                    return
                if reaches(n.arg, n.arg):
                    cyclic_call = n
                    break
                if any(reaches(c.arg, c.arg) for c in callees(defs[n.arg])):
                    return          # a nested call closes a cycle: where the run stops is not this oracle's business
                expand(n.arg)
        if cyclic_call is None:
            return
        count: dict[str, int] = {}
        for e in w.effects:
            if e[1] == "mark":
                count[e[2]] = count.get(e[2], 0) + 1
        for m in defs.values():
            for c in m.children:
                if c.kind == "Call macro" or c.children:
                    break
                if c.kind == "Mark" and count.get(c.arg, 0) > execs.get(m.id, 0):
                    # shape of the cycle: is every call on it the first call among the direct children of its macro
                    # (what the engine's up-front check follows), a later direct child, or nested in a block of the body
                    def shape():
                        worst = "first_direct_child"
                        for mm in defs.values():
                            if not reaches(mm.arg, cyclic_call.arg) and mm.arg != cyclic_call.arg:
                                continue
                            direct = [x for x in mm.children if x.kind == "Call macro"]
                            for x in callees(mm):
                                if x.arg != cyclic_call.arg and not reaches(x.arg, cyclic_call.arg):
                                    continue
                                if x not in direct:
                                    return "nested"
                                if direct and x is not direct[0]:
                                    worst = "direct_child_not_first"
                        return worst
                    self.v("C41", "C41.cyclic_call_ran_body", shape(),
                           f"{cyclic_call.text.strip()!r} ({cyclic_call.id}) closes a call cycle under the definitions in force "
                           f"(a later redefinition made {cyclic_call.arg} reach itself); {c.text.strip()!r} of macro {m.arg} ran "
                           f"{count[c.arg]} times, the calls before it account for {execs.get(m.id, 0)}")
                    return
        self.res.probe("cycle_closed_by_redefinition_checked")

    def at_end(self, w):
        for e in w.exceptions:
            if "RecursionError" in e[2]:
                self.v("C41", "C41.recursion_error_escaped", "tick", e[2])
        self._recursion_check(w)
        if not any(r[1] in ("edit", "inject", "cancel", "force") for r in w.requests[1:]):
            self._cycle_closed_by_redefinition(w)
            self._reference_for_macros(w)
        if not self.enabled:
            return
        # main-path macro calls in the fragment without interrupts: body tokens appear once per call, in order
        if any(n.kind in ("Watch", "Alarm", "Stop", "Restart", "Pause", "Hold") for n in self.tree.walk()):
            return
        macros: dict[str, model.MNode] = {}
        exp_counts: dict[tuple, int] = {}
        calls = 0
        recs = records(w)

        def started(n):
            return any(s[0] in ("started", "completed") for s in recs.get(n.id, []))
        for n in self.tree.walk():          # document order = execution order in this interrupt-free fragment
            if any(a.kind == "Macro" for a in n.ancestors()):
                continue
            if n.kind == "Macro":
                if started(n):
                    macros[n.arg] = n
            elif n.kind == "Call macro":
                st = recs.get(n.id, [])
                if any(s[0] == "completed" for s in st):
                    m = macros.get(n.arg)
                    if m is None:
                        continue
                    calls += 1
                    if any(c.kind == "Call macro" for c in m.walk()):
                        return
                    for c in m.walk():
                        if c.token and c is not m:
                            exp_counts[c.token] = exp_counts.get(c.token, 0) + 1
        if not calls or not getattr(w, "quiescent", False):
            return
        got: dict[tuple, int] = {}
        for e in w.effects:
            got[(e[1], e[2])] = got.get((e[1], e[2]), 0) + 1
        body_tokens = {c.token for m in self.tree.walk() if m.kind == "Macro" for c in m.walk() if c.token}
        outside = {n.token for n in self.tree.walk() if n.token and not any(a.kind == "Macro" for a in n.ancestors())}
        for tok in sorted(body_tokens - outside):
            # a token may belong to several definitions of one macro name; compare totals
            if got.get(tok, 0) != exp_counts.get(tok, 0) and tok[0] == "mark":
                ctx = "@macro_defined_in_ended_block" if macro_called_outside_its_block(self.tree) else ""
                self.v("C41", "C41.macro_body_count_mismatch" + ctx, "Macro",
                       f"token {tok} seen {got.get(tok, 0)} times, expected {exp_counts.get(tok, 0)} from completed calls")
        self.res.probe("macro_calls_checked", calls)

    def _reference_for_macros(self, w):
        """In the interrupt-free fragment the effects of macro body lines come exactly as the source-order expansion says:
        every call (also one inside another macro's body) runs the definition of that name in force when it executes."""
        if not getattr(w, "quiescent", False):
            return
        ref = C02Order(self.w, self.plan, self.res)
        if not ref.enabled:
            return
        exp = ref._reference()
        if exp is None:
            return
        body = {c.token for m in self.tree.walk() if m.kind == "Macro" for c in m.walk() if c.token}
        got = [(e[1], e[2]) for e in w.effects if (e[1], e[2]) in body]
        want = [t for t in exp if t in body]
        if got != want:
            ctx = "@macro_defined_in_ended_block" if macro_called_outside_its_block(self.tree) else ""
            i = next((k for k, (a, b) in enumerate(zip(got, want)) if a != b), min(len(got), len(want)))
            self.v("C41", "C41.macro_body_sequence_differs_from_definitions_in_force" + ctx, "Macro",
                   f"effects of macro body lines {got[max(0, i - 3):i + 3]} (position {i}), expansion with the definitions in "
                   f"force at each call gives {want[max(0, i - 3):i + 3]}")
        else:
            self.res.probe("macro_body_sequence_matched")

# ---------------------------------------------------------------------------------------------- C01
class C01Edits(Oracle):
    """Live edits never re-run or lose progress; reported method state is monotone; started-line edits rejected."""

    def __init__(self, world, plan, res):
        super().__init__(world, plan, res)
        self.has_edits = any(op[0] == "edit" for op in plan["ops"])
        self.no_restart = not any(op[0] == "user" and op[1] in ("Restart", "Stop", "Start") for op in plan["ops"][1:]) and \
            not any(re.match(r"^\s*([0-9.]+ )?(Restart|Stop)\b", c) for _, c in plan["method"])
        self.pre_state = None
        self.pre_digest = None
        self.appended: list[tuple[str, str, int]] = []     # (line id, mark token, tick)
        self.edit_ticks: list[int] = []
        self.accepted_live_edits = 0

    def _digest(self):
        w = self.w
        ms = w.method_state()
        return (tuple(w.method_lines), tuple(sorted(ms.started_line_ids)), tuple(sorted(ms.executed_line_ids)),
                tuple(sorted(ms.failed_line_ids)), len(w.effects), w.state, tuple(sorted(w.uod.command_instances)))

    def before_edit(self, kind, expect, old, new):
        ms = self.w.method_state()
        self.pre_state = (set(ms.started_line_ids), set(ms.executed_line_ids), set(ms.failed_line_ids))
        self.pre_digest = self._digest()
        self.pre_run_active = self.w.state not in ("Stopped", "Restarting")

    def after_edit(self, kind, expect, accepted, old, new):
        w = self.w
        self.edit_ticks.append(w.tick_no)
        if kind.startswith("macro_"):
            # C41: a macro that has already started may not be edited or removed
            name = getattr(w, "macro_edit", ("?", ""))[0]
            ctx = "@edit" if self.accepted_live_edits else ""
            if accepted and self.pre_run_active:
                self.accepted_live_edits += 1
            touched_started = getattr(w, "macro_edit", ("?", "", []))[2]
            if accepted and self.pre_run_active and touched_started and not ctx:
                self.v("C01", "C01.started_line_edit_accepted", kind,
                       f"the edit {kind} of macro {name} changes / removes line(s) {touched_started} that had started in this "
                       f"run, and it was accepted")
            if expect == "reject" and accepted and self.pre_run_active:
                self.v("C41", "C41.started_macro_edit_accepted" + ctx, kind,
                       f"macro {name} had already run (body effect seen or a call completed) and the edit {kind} was accepted")
            elif expect == "reject" and not accepted and self._digest() != self.pre_digest:
                self.v("C41", "C41.rejected_macro_edit_changed_state", kind, "a rejected macro edit changed method / state")
            elif expect == "reject":
                self.res.probe("started_macro_edit_rejected")
            elif expect == "free":
                self.res.probe("unstarted_macro_edit_" + ("accepted" if accepted else "rejected"))
            return
        if accepted and self.pre_run_active:
            self.accepted_live_edits += 1
        if expect == "reject":
            if accepted and self.pre_run_active:
                # after a first accepted live edit the engine has lost the method state (known finding
                # C01.method_state_lost_after_edit): a later edit of a line that had started is a consequence of that
                ctx = "@edit" if self.accepted_live_edits > 1 else ""
                self.v("C01", "C01.started_line_edit_accepted" + ctx, kind, "an edit that changes a started line was accepted")
            elif not accepted and self._digest() != self.pre_digest:
                self.v("C01", "C01.rejected_edit_changed_state", kind, "a rejected edit changed method / state")
            return
        if not accepted:
            if self.pre_run_active:
                self.v("C01", "C01.legal_edit_rejected", kind,
                       "an edit that leaves every started line unchanged was rejected")
            return
        if not self.pre_run_active:
            return
        ms = w.method_state()
        new_ids = {i for i, _ in new}
        post = (set(ms.started_line_ids), set(ms.executed_line_ids), set(ms.failed_line_ids))
        for name, a, b in zip(("started", "executed", "failed"), self.pre_state, post):
            lost = {i for i in a if i in new_ids} - (post[0] | post[1] | post[2] if name == "started" else b)
            if lost:
                self.v("C01", "C01.method_state_lost_after_edit", name,
                       f"lines {sorted(lost)[:5]} were {name} before the edit and are not reported any more")
        if kind in ("append",):
            old_ids = {i for i, _ in old}
            for lid, content in new:
                if lid not in old_ids:
                    m = re.match(r"^\s*Mark: (\S+)", content)
                    if m:
                        self.appended.append((lid, m.group(1), w.tick_no))

    def at_end(self, w):
        if not self.has_edits or not self.no_restart:
            return
        # no re-execution: a token outside Alarm / macro bodies takes effect at most once
        tree = model.parse(w.method_lines)
        uniq: dict[tuple, list] = {}
        for n in tree.walk():
            if n.token:
                uniq.setdefault(n.token, []).append(n)
        count: dict[tuple, int] = {}
        for e in w.effects:
            count[(e[1], e[2])] = count.get((e[1], e[2]), 0) + 1
        for tok, nodes in uniq.items():
            if len(nodes) == 1 and not in_repeating_scope(nodes[0]) and count.get(tok, 0) > 1 and tok[0] == "mark":
                self.v("C01", "C01.instruction_reexecuted_after_edit", nodes[0].kind,
                       f"{nodes[0].text.strip()!r} took effect {count[tok]} times in a run with live edits at ticks {self.edit_ticks}")
        # no lost work: a Mark appended at the end of a method whose main path reaches its end runs exactly once
        if getattr(w, "quiescent", False) and getattr(w, "method_end_reached", False):
            for lid, tok, t in self.appended:
                still = any(i == lid for i, _ in w.method_lines)
                if still and count.get(("mark", tok), 0) == 0 and w.state == "Running":
                    self.v("C01", "C01.appended_line_never_ran", "Mark",
                           f"Mark: {tok} appended at tick {t} never ran although the method reached its end")


# ---------------------------------------------------------------------------------------------- C14
class C14Inject(Oracle):
    """Injected code runs exactly once, only in ticks in which the run is not paused/held, and does not change
    which method lines have started or completed."""

    def __init__(self, world, plan, res):
        super().__init__(world, plan, res)
        self.injected: list[tuple[int, list[str], bool]] = []   # (tick, mark tokens, accepted)
        self.pcode_of: dict[tuple[int, str], str] = {}
        self.no_restart = not any(op[0] == "user" and op[1] in ("Restart", "Stop") for op in plan["ops"]) and \
            not any(re.match(r"^\s*([0-9.]+ )?(Restart|Stop)\b", c) for _, c in plan["method"])
        self.tick_state: dict[int, str] = {}

    def before_tick(self, w, inc):
        self.tick_state[w.tick_no] = w.state

    def after_request(self, kind, msg, accepted, reply):
        if kind == "inject":
            toks = re.findall(r"Mark: (i\d+)", msg.pcode)
            self.injected.append((self.w.tick_no, toks, accepted, self.w.state))
            for t in toks:
                self.pcode_of[(self.w.tick_no, t)] = msg.pcode

    def on_effect(self, e):
        tick, kind, tok, _ = e
        if kind == "mark" and re.match(r"^i\d+$", tok):
            st = self.tick_state.get(tick)
            if st in ("Paused", "Holding"):
                self.v("C14", "C14.injected_code_ran_while_" + st, "Mark", f"injected Mark {tok} took effect in tick {tick} entered in {st}")

    def at_end(self, w):
        if not self.no_restart:
            return
        count: dict[str, int] = {}
        for e in w.effects:
            if e[1] == "mark":
                count[e[2]] = count.get(e[2], 0) + 1
        for tick, toks, accepted, st in self.injected:
            for tok in toks:
                c = count.get(tok, 0)
                if c > 1:
                    self.v("C14", "C14.injected_code_ran_twice", "Mark", f"injected Mark {tok} (tick {tick}) ran {c} times")
                running_after = sum(1 for t, s2 in self.tick_state.items() if t > tick + 1 and s2 == "Running")
                simple = not self.pcode_of.get((tick, tok), "").lstrip().startswith("Block")
                if c == 0 and accepted and simple and running_after >= 3 * M_SLACK + 25 and w.state in ("Running", "Stopped") \
                        and not any(e[1] == "method_error" for e in w.events) and "edit" not in w.ctx_flags:
                    self.v("C14", "C14.injected_code_never_ran", "Mark",
                           f"Mark {tok} injected at tick {tick} (state Running) never ran")


# ---------------------------------------------------------------------------------------------- C12
class C12CancelForce(Oracle):
    """Cancel / force take effect exactly as offered; requests for items not offered change nothing."""

    def __init__(self, world, plan, res):
        super().__init__(world, plan, res)
        self.pending: list[dict] = []
        self.injected_watch: list[dict] = []
        try:
            self.watch_nodes = [n for n in model.parse(plan["method"]).walk() if n.kind == "Watch"] \
                if plan.get("cfg", {}).get("wellformed") else []
        except Exception:
            self.watch_nodes = []

    def _digest(self):
        w = self.w
        ms = w.method_state()
        try:
            rl = [(it.name, str(it.state), it.cancelled, it.forced) for it in w.runlog().items]
        except Exception:
            rl = None
        return (tuple(sorted(ms.started_line_ids)), tuple(sorted(ms.executed_line_ids)), w.state,
                tuple(sorted(w.uod.command_instances)), tuple(rl) if rl is not None else None, len(w.effects))

    def before_cancel_force(self, what, item, target_id):
        self.pre = self._digest()

    def after_cancel_force(self, what, item, target_id, ok):
        w = self.w
        offered = item is not None and (item.cancellable if what == "cancel" else item.forcible)
        base = item.name.split(":")[0].strip() if item is not None else "unknown"
        if offered and not ok:
            self.v("C12", "C12.offered_but_rejected", f"{what}:{base}",
                   f"{what} of run-log item {item.name!r} (offered) was rejected")
        if not offered:
            if self._digest() != self.pre:
                self.v("C12", "C12.not_offered_request_changed_state", f"{what}:{base}",
                       f"{what} of {item.name if item else target_id!r} (not offered) accepted={ok} changed engine state")
            self.res.probe("not_offered_checked")
            return
        if ok and base == "Watch":
            # the Watch of an injected snippet (registered exactly once): after an accepted cancel its body never runs,
            # after an accepted force it runs although its condition is false
            for op in self.plan["ops"]:
                if op[0] == "inject" and item.name.strip() in [ln.strip() for ln in str(op[1]).split("\n")]:
                    lines = str(op[1]).split("\n")
                    k = [ln.strip() for ln in lines].index(item.name.strip())
                    body = [ln.strip()[6:] for ln in lines[k + 1:] if ln.startswith("    Mark: ")]
                    if body:
                        self.injected_watch.append({"what": what, "tick": w.tick_no, "name": item.name, "marks": body,
                                                    "n_effects": len(w.effects)})
                    break
        if ok:
            self.pending.append({"what": what, "base": base, "name": item.name, "tick": w.tick_no, "id": target_id,
                                 "state_at": w.state, "flags_at": w.control(),
                                 "n_effects": len(w.effects), "cmd_events": len(w.plog.events)})
            self.res.probe(f"{what}_{base}")

    def after_tick(self, w, inc):
        for q in list(self.injected_watch):
            seen = [e for e in w.effects[q["n_effects"]:] if e[1] == "mark" and e[2] in q["marks"]]
            if q["what"] == "cancel" and seen:
                self.injected_watch.remove(q)
                self.v("C12", "C12.cancelled_watch_body_ran", "injected Watch",
                       f"cancel of the injected {q['name']!r} accepted in tick {q['tick']}, its body ran afterwards: {seen[:2]}")
            elif q["what"] == "force" and seen:
                self.injected_watch.remove(q)
                self.res.probe("forced_injected_watch_started")
        for p in list(self.pending):
            age = w.tick_no - p["tick"]
            if p["what"] == "cancel":
                if p["base"] in ("Pause", "Hold") and age == 2:
                    bad = "Paused" if p["base"] == "Pause" else "Holding"
                    r, h, pa = w.control()
                    flag = pa if p["base"] == "Pause" else h
                    # attributable only if this instruction is the one source of the state: it was entered once, by the
                    # method, and the user never sent the same command in this run
                    entered = [e for e in w.events if e[1] == "runstate" and e[2] == p["base"]]
                    by_user = any(r[1] == "control" and r[2] == p["base"] for r in w.requests)
                    try:        # two instructions of one kind share a single engine command (and one run-state event)
                        same_kind = sum(1 for it in w.runlog().items if it.name.split(":")[0].strip() == p["base"])
                    except Exception:
                        same_kind = 2
                    if flag and not w.engine.has_error_state() and len(entered) == 1 and not by_user and same_kind == 1:
                        in_effect = p["flags_at"][2] if p["base"] == "Pause" else p["flags_at"][1]
                        kind = "C12.cancelled_timed_command_still_active" if in_effect else \
                            "C12.cancel_before_execution_ineffective"
                        self.v("C12", kind, p["base"],
                               f"{p['name']!r} cancelled in tick {p['tick']} but the run is still {bad} two ticks later")
                    self.pending.remove(p)
                elif p["base"] in model.UOD and age >= 1:
                    # the run-log item id is the instance id of the invocation: only that instance is the cancelled one
                    later = [ev for ev in w.plog.events[p["cmd_events"]:] if ev[2] == p["base"] and ev[6] == str(p["id"])]
                    # the cancelled instance must be finalized and never execute again
                    self.pending.remove(p)
                    names = [ev[1] for ev in later]
                    if "exec" in names and "init" not in names:
                        self.v("C12", "C12.cancelled_command_executed_again", p["base"],
                               f"{p['name']!r} cancelled in tick {p['tick']} executed afterwards: {later[:3]}")
                elif age > 3:
                    self.pending.remove(p)
            else:
                # force liveness: a forced Watch whose text is unique in the method enters its body within M_SLACK ticks
                # in which the run was Running (unless its block ended, the run stopped or an error intervened)
                if p["base"] == "Watch" and not p.get("done"):
                    p["running_ticks"] = p.get("running_ticks", 0) + (1 if w.state == "Running" else 0)
                    nodes = [n for n in self.watch_nodes if f"{n.kind}: {n.arg}".strip() == p["name"].strip()]
                    if len(nodes) != 1 or in_repeating_scope(nodes[0]):
                        p["done"] = True
                    else:
                        nid = nodes[0].id
                        evs = [e for e in w.events if e[0] > p["tick"]]
                        blocks = {a.arg for a in nodes[0].ancestors() if a.kind == "Block"}
                        if any(e[1] == "block_end" and e[2] in blocks for e in w.events):
                            p["done"] = True      # its block has ended (before or after the request): the Watch is gone
                            continue
                        if any(e[1] == "scope_activate" and e[2] == nid for e in evs):
                            p["done"] = True
                            self.res.probe("forced_watch_started")
                        elif any(e[1] in ("stop", "method_error", "block_end", "scope_end") for e in evs) or \
                                "edit" in w.ctx_flags or w.engine.has_error_state():
                            p["done"] = True
                        elif p["running_ticks"] >= 2 * M_SLACK:
                            p["done"] = True
                            self.v("C12", "C12.forced_watch_did_not_start", "Watch",
                                   f"force of {p['name']!r} accepted after tick {p['tick']}; after {p['running_ticks']} Running "
                                   f"ticks its body has not been entered")
                if age > 3 * M_SLACK:
                    self.pending.remove(p)
