"""Per-tick invariant oracles of SIM-E: C06, C07, C08, C09, C13, C15, C16, C36."""
from __future__ import annotations

from typing import Any

from .uod import OUTPUTS, SAFE, SAFE_HW

EPS = 1e-6
CONTROL = ["Start", "Stop", "Pause", "Unpause", "Hold", "Unhold", "Restart"]


class Oracle:
    def __init__(self, world, plan: dict, res) -> None:
        self.w = world
        self.plan = plan
        self.res = res

    def v(self, prop: str, kind: str, site: str, detail: str) -> None:
        self.res.add(prop, kind, site, self.w.tick_no, detail)


def _valid(cmd: str, state: str, paused: bool, holding: bool) -> bool:
    """The statement's gating table: validity of a user control command in a given state."""
    stopped = state in ("Stopped", "Restarting")
    if cmd == "Start":
        return state == "Stopped"
    if stopped:
        return False
    if cmd in ("Stop", "Restart"):
        return True
    if cmd == "Pause":
        return not paused
    if cmd == "Unpause":
        return paused
    if cmd == "Hold":
        return not holding
    if cmd == "Unhold":
        return holding
    return False


class C06RunState(Oracle):
    """Run state and System State agree after every tick; user commands gated by the state at request time;
    run ids fresh, non-empty exactly while a run is active."""

    def __init__(self, world, plan, res):
        super().__init__(world, plan, res)
        self.run_ids: list[str] = []
        self.prev_run_id = None
        self.restart_window = 0      # ticks remaining in which Restarting/Stopped-gap is legal
        self.saw_restarting = False
        self.restart_requested_tick: int | None = None

    def after_request(self, kind, msg, accepted, reply):
        if kind != "control":
            return
        name = msg.name
        if name not in CONTROL:
            return
        w = self.w
        r, h, p = w.control()
        st = w.state
        # the state at request time is the state the user can see: System State + control state
        exp = _valid(name, st, p, h)
        if accepted != exp:
            self.v("C06", "C06.command_gating", f"{name}@{st}{'+hold' if h and st != 'Holding' else ''}",
                   f"user {name} in state {st} (running={r}, holding={h}, paused={p}) accepted={accepted}, "
                   f"valid per statement={exp}")
        if accepted and name == "Restart":
            self.restart_requested_tick = w.tick_no

    def after_tick(self, w, inc):
        st = w.state
        r, h, p = w.control()
        rid = w.tag("Run Id")
        if st == "Restarting":
            self.saw_restarting = True
            self.restart_window = 3
        elif self.restart_window > 0:
            self.restart_window -= 1
        in_restart = st == "Restarting" or self.restart_window > 0
        # state <-> flags
        if st == "Stopped":
            if r and not in_restart:
                self.v("C06", "C06.state_flag_mismatch", "Stopped", f"System State Stopped but is_running={r}")
            elif (h or p) and not in_restart and not w.engine.has_error_state():
                # a stopped run is neither paused nor on hold: the control state message must not say so
                self.v("C06", "C06.state_flag_mismatch", "Stopped:flags",
                       f"System State Stopped but the control state reports holding={h} paused={p}")
        elif st == "Paused":
            if not (r and p):
                self.v("C06", "C06.state_flag_mismatch", "Paused", f"Paused but running={r} paused={p}")
        elif st == "Holding":
            if not (r and h and not p):
                self.v("C06", "C06.state_flag_mismatch", "Holding", f"Holding but running={r} holding={h} paused={p}")
        elif st == "Running":
            if not (r and not h and not p):
                self.v("C06", "C06.state_flag_mismatch", "Running", f"Running but running={r} holding={h} paused={p}")
        elif st == "Restarting":
            recent = self.restart_requested_tick is not None or any(
                e[1] == "cmd_restart" for e in w.events[-5:])
            pass
        else:
            self.v("C06", "C06.unknown_state", str(st), f"System State = {st!r}")
        # flags -> state
        if not in_restart:
            want = "Stopped" if not r else ("Paused" if p else ("Holding" if h else "Running"))
            if st != want:
                self.v("C06", "C06.flags_state_mismatch", f"{want}!={st}",
                       f"control state (running={r}, holding={h}, paused={p}) means {want}, System State is {st}")
        # run id
        active = st not in ("Stopped", "Restarting")
        if active and not rid and not in_restart:
            self.v("C06", "C06.run_id_missing", st, f"run active in state {st} but Run Id = {rid!r}")
        if st == "Stopped" and rid and not in_restart:
            self.v("C06", "C06.run_id_not_cleared", "Stopped", f"Stopped but Run Id = {rid!r}")
        if rid and rid != self.prev_run_id:
            if rid in self.run_ids:
                self.v("C06", "C06.run_id_reused", "run_id", f"run id {rid} used by an earlier run")
            self.run_ids.append(rid)
        self.prev_run_id = rid


class C06Model(Oracle):
    """Reference transition model with latencies, consulted in the deterministic fragment only: user control commands
    spaced so that at most one is in flight, no control instruction in the method, no method error, no injected code,
    no cancel/force.  An accepted command executes in the command phase of the next tick: Start, Pause, Unpause, Hold and
    Unhold show after 1 tick, Stop after 2, Restart after 3 (appendix A).  From then on, until the next accepted
    command, the control state must equal the fold of the accepted commands - a lost, late or misapplied command shows."""

    LAT = {"Start": 1, "Pause": 1, "Unpause": 1, "Hold": 1, "Unhold": 1, "Stop": 2, "Restart": 3}

    def __init__(self, world, plan, res):
        super().__init__(world, plan, res)
        import re
        self.enabled = not any(re.match(r"^\s*([0-9.]+ )?(Pause|Hold|Stop|Restart|Unpause|Unhold)\b", c)
                               for _, c in plan["method"])
        self._ctl_re = re.compile(r"\b(Pause|Hold|Stop|Restart|Unpause|Unhold)\b")
        self.m = (False, False, False)        # (running, holding, paused)
        self.settle = -1
        self.rid_before: str | None = None
        self.expect_new_rid = False
        self.last_cmd = ""

    def after_request(self, kind, msg, accepted, reply):
        if not self.enabled:
            return
        w = self.w
        if kind != "control" or msg.name not in self.LAT:
            if kind == "control":
                return        # a UOD command button does not touch the control state (a failing one leaves the fragment
                #               through the error check in after_tick)
            if kind == "inject" and not self._ctl_re.search(getattr(msg, "pcode", "") or ""):
                return        # injected code without a control instruction: likewise
            if accepted and not (kind == "edit" and self.settle < 0):    # the initial method load is not a live edit
                self.enabled = False          # control code injected / edits / cancel / force: outside the fragment
            return
        if not accepted:
            return
        if w.tick_no < self.settle:
            self.enabled = False              # a second command while one is in flight: outside the fragment
            self.res.probe("c06_model_left_fragment")
            return
        r, h, p = self.m
        n = msg.name
        if n == "Start":
            self.m = (True, False, False)
        elif n == "Stop":
            self.m = (False, False, False)
        elif n == "Restart":
            self.m = (True, False, False)
        elif n == "Pause":
            self.m = (r, h, True)
        elif n == "Unpause":
            self.m = (r, h, False)
        elif n == "Hold":
            self.m = (r, True, p)
        elif n == "Unhold":
            self.m = (r, False, p)
        self.settle = w.tick_no + self.LAT[n]
        self.rid_before = w.tag("Run Id")
        self.expect_new_rid = n in ("Start", "Restart")
        self.last_cmd = n

    def after_tick(self, w, inc):
        if not self.enabled:
            return
        if w.engine.has_error_state() or "err" in w.ctx_flags:
            self.enabled = False
            return
        if w.tick_no < self.settle or self.settle < 0:
            return
        got = w.control()
        if got != self.m:
            self.v("C06", "C06.state_differs_from_model", self.last_cmd,
                   f"{w.tick_no - self.settle + self.LAT.get(self.last_cmd, 0)} ticks after the accepted user command "
                   f"{self.last_cmd} the control state (running, holding, paused) is {got}, the transition model says {self.m} "
                   f"(System State {w.state})")
            self.enabled = False
            return
        if self.expect_new_rid and w.tick_no == self.settle:
            rid = w.tag("Run Id")
            if not rid or rid == self.rid_before:
                self.v("C06", "C06.no_new_run_id_after_" + self.last_cmd, self.last_cmd,
                       f"Run Id {rid!r} after {self.last_cmd} settled (was {self.rid_before!r})")
        self.res.probe("c06_model_ticks_checked")


class C07Clocks(Oracle):
    """Process/Run Time zero at run start and monotone; clocks advance only over ticks whose previous state
    was Running (Run Time: run active); Block/Scope Time not while Paused or Holding."""

    def __init__(self, world, plan, res):
        super().__init__(world, plan, res)
        self.prev: dict[str, Any] | None = None
        self.prev_state = "Stopped"
        self.ev_pos = 0
        self.prev_rid = None

    def before_tick(self, w, inc):
        self.prev = {n: w.tag(n) for n in ("Process Time", "Run Time", "Block Time", "Scope Time")}
        self.prev_state = w.state
        self.prev_rid = w.tag("Run Id")
        self.ev_pos = len(w.events)
        self.prev_err = w.engine.has_error_state()

    ever_paused = False

    def after_tick(self, w, inc):
        assert self.prev is not None
        if w.state == "Paused":
            # the statement only says when the clocks may advance; whether they resume after a pause that was
            # ended by Stop/Restart is outside it, so the "advances by dt" catch is limited to pause-free histories
            self.ever_paused = True
        st = w.state
        rid = w.tag("Run Id")
        new_run = bool(rid) and rid != self.prev_rid
        evs = w.events[self.ev_pos:]
        scope_change = any(e[1] in ("block_start", "block_end", "scope_start", "scope_activate", "scope_end", "start",
                                    "stop") for e in evs)
        cur = {n: w.tag(n) for n in self.prev}
        if new_run:
            for n in ("Process Time", "Run Time"):
                if abs(cur[n]) > EPS:
                    self.v("C07", "C07.clock_not_zero_at_run_start", n,
                           f"{n} = {cur[n]} in the tick in which run {rid} started")
            return
        if not rid and not self.prev_rid:
            return
        for n in ("Process Time", "Run Time"):
            d = cur[n] - self.prev[n]
            if d < -EPS and rid == self.prev_rid and rid:
                self.v("C07", "C07.clock_decreased", n, f"{n} went {self.prev[n]} -> {cur[n]} within run {rid}")
        d_pt = cur["Process Time"] - self.prev["Process Time"]
        if d_pt > EPS and self.prev_state != "Running":
            self.v("C07", "C07.process_time_advanced_while_" + self.prev_state, "Process Time",
                   f"Process Time +{d_pt:.3f} over a tick entered in state {self.prev_state}")
        d_rt = cur["Run Time"] - self.prev["Run Time"]
        if d_rt > EPS and self.prev_state in ("Stopped",):
            self.v("C07", "C07.run_time_advanced_while_Stopped", "Run Time", f"Run Time +{d_rt:.3f} while Stopped")
        if self.prev_state == "Running" and st == "Running" and not w.engine.has_error_state() and not self.prev_err \
                and inc > 0 and rid == self.prev_rid:
            if abs(d_pt - inc) > 1e-5:
                self.v("C07", "C07.process_time_wrong_increment", "Process Time",
                       f"Running tick with increment {inc}: Process Time +{d_pt}")
            if abs(d_rt - inc) > 1e-5:
                self.v("C07", "C07.run_time_wrong_increment", "Run Time", f"Running tick with increment {inc}: Run Time +{d_rt}")
        if not scope_change and rid == self.prev_rid:
            for n in ("Block Time", "Scope Time"):
                d = cur[n] - self.prev[n]
                if d > EPS and self.prev_state not in ("Running", "Restarting"):
                    # (a tick entered in Restarting is the old run winding down; the statement's clause is about
                    # Paused and Holding, and the clocks are reset when the new run starts)
                    why = self.prev_state
                    if self.prev_state == "Paused" and self.prev_err:
                        why = "ErrorPaused"
                    self.v("C07", f"C07.{n.split()[0].lower()}_time_advanced_while_{why}", n,
                           f"{n} +{d:.3f} over a tick entered in state {self.prev_state}")
                if self.prev_state == "Running" and st == "Running" and not self.prev_err and \
                        not w.engine.has_error_state() and inc > 0 and self.prev[n] > 0 and abs(d - inc) > 1e-5 \
                        and not self.ever_paused:
                    self.v("C07", f"C07.{n.split()[0].lower()}_time_wrong_increment", n,
                           f"Running tick with increment {inc}: {n} +{d}")


class C16TagTimes(Oracle):
    """Every queued tag update carries a tick_time inside [engine start, end of the current tick's span),
    per tag non-decreasing; a value that changed in tick j is stamped within tick j's span."""

    def __init__(self, world, plan, res):
        super().__init__(world, plan, res)
        self.last: dict[str, float] = {}
        self.prev_vals: dict[str, Any] = {}
        self.engine_start = world.clock.now
        self.changed_tick: dict[str, int] = {}

    def _reported(self, w):
        return {t.name: t.as_readonly().value for t in w.engine._iter_all_tags()}

    def before_tick(self, w, inc):
        self.prev_vals = self._reported(w)
        self.q_len = w.engine.tag_updates.qsize()

    def after_tick(self, w, inc):
        cur = self._reported(w)
        for n, val in cur.items():
            if self.prev_vals.get(n) != val:
                self.changed_tick[n] = w.tick_no
        t_lo = w.tick_times[w.tick_no]
        # tags whose change the engine itself noticed in this tick (they were put on the queue during this tick)
        self.notified = {t.name for t in list(w.engine.tag_updates.queue)[self.q_len:]} if hasattr(self, "q_len") else set()
        # inspect the engine's queue without draining it
        queued = list(w.engine.tag_updates.queue)      # entries are live Tag objects: look at every queued tag
        for tag in queued:
            tt = tag.tick_time
            name = tag.name
            if tt is None:
                continue
            if tt < self.engine_start - 1e-3 or tt >= t_lo + 0.02:
                self.v("C16", "C16.tick_time_out_of_range", name,
                       f"tag {name} reported with tick_time {tt!r}; engine start {self.engine_start}, current tick time {t_lo}")
            elif name in self.last and tt < self.last[name] - 1e-9:
                self.v("C16", "C16.tick_time_decreased", name, f"tag {name} tick_time {self.last[name]} -> {tt}")
            elif self.changed_tick.get(name) == w.tick_no and name in self.notified and \
                    not (t_lo - 1e-9 <= tt < t_lo + 0.02):
                self.v("C16", "C16.stale_tick_time", name,
                       f"tag {name} changed in tick {w.tick_no} (time {t_lo}) but carries tick_time {tt}")
            if isinstance(tt, (int, float)) and tt >= self.engine_start - 1e-3:
                self.last[name] = max(self.last.get(name, tt), tt)


class C36Reports(Oracle):
    """What the receiver knows after each report: a tag whose value differs from the last value reported for it (or, if it
    was never reported, from its value when the previous report was taken) is in the next report, with its value at the
    time of the report. A report may be taken while a tick lands in the middle of its drain (mid_tick)."""

    def __init__(self, world, plan, res):
        super().__init__(world, plan, res)
        self.known: dict[str, Any] | None = None

    @staticmethod
    def _same(a, b) -> bool:
        if isinstance(a, float) and isinstance(b, float):
            return abs(a - b) < 1e-9
        return a == b or str(a) == str(b)

    def report(self, snapshot: bool = False, mid_tick=None):
        w = self.w
        pre = {t.name: t.as_readonly().value for t in w.engine._iter_all_tags()}
        if mid_tick is not None:
            w.hw.on_hook = mid_tick          # fires once, when the drain formats the HOOK tag
        try:
            tags = w.builder.collect_tag_updates(snapshot=snapshot)
        finally:
            fired = mid_tick is not None and w.hw.on_hook is None
            w.hw.on_hook = None
        if fired:
            self.res.probe("tick_landed_inside_report_drain")
        names = [t.name for t in tags]
        if len(names) != len(set(names)):
            self.v("C36", "C36.duplicate_tag_in_report", "report", f"report lists a tag twice: {sorted(names)}")
        cur = {t.name: t.as_readonly().value for t in w.engine._iter_all_tags()}
        rep = {t.name: t.value for t in tags}
        if snapshot:
            missing = sorted(set(cur) - set(rep))
            if missing:
                self.v("C36", "C36.snapshot_incomplete", missing[0], f"snapshot report misses {missing}")
        if self.known is not None:
            for n, val in pre.items():
                k = self.known.get(n, val)
                if not self._same(k, val) and n not in rep:
                    self.v("C36", "C36.changed_tag_not_reported", n,
                           f"{n} is {val!r}, the receiver last heard {k!r}, and the report does not list it")
        for n, val in rep.items():
            if not (self._same(pre.get(n), val) or (fired and self._same(cur.get(n), val))):
                self.v("C36", "C36.reported_value_not_latest", n,
                       f"{n} reported {val!r}, value at the time of the report {pre.get(n)!r}"
                       + (f" / after the tick that landed in it {cur.get(n)!r}" if fired else ""))
        if self.known is None:
            self.known = dict(pre)
        for n, val in pre.items():
            self.known.setdefault(n, val)
        self.known.update(rep)
        w.rec.log("report", len(tags), bool(fired))
        self.res.probe("report")


class C08SafeOutputs(Oracle):
    """Safe-valued outputs hold their safe value on the hardware whenever no run is progressing."""

    def __init__(self, world, plan, res):
        super().__init__(world, plan, res)
        self.user_touched: set[str] = set()    # outputs the user commanded during the current pause
        self.phase = "boot"                     # boot | run | stopped | paused
        self.paused_since: int | None = None
        self.wl_pos = 0
        self.prev_state = "Stopped"
        self.err_pause = False
        self.stopped_ticks = 0
        self.pause_cmd_writes: set[str] = set()
        self.cmd_pos = 0
        self.restart_in_flight = 0
        self.ev_pos_c08 = 0

    recent_button: tuple | None = None

    def before_request(self, kind, msg):
        if kind == "control" and getattr(msg, "name", "") in ("OpenValve", "Full"):
            out = "OUT2" if msg.name == "OpenValve" else "OUT1"
            if self.w.state == "Paused":
                self.user_touched.add(out)     # the user commands that output during the pause
            else:
                # pressed in the gap before the tick in which a pause begins: it executes in that tick, possibly after the
                # Pause command - from the engine's point of view the user commanded the output during the pause
                self.recent_button = (self.w.tick_no, out)
        if kind == "inject" and self.w.state == "Paused":
            txt = msg.pcode
            if any(k in txt for k in ("Set1", "Ramp")):
                self.user_touched.add("OUT1")
            if "Valve" in txt:
                self.user_touched.add("OUT2")

    def after_tick(self, w, inc):
        st = w.state
        mem = w.hw.mem
        new_writes = w.hw.write_log[self.wl_pos:]
        self.wl_pos = len(w.hw.write_log)
        err = w.engine.has_error_state()
        self.stopped_ticks = self.stopped_ticks + 1 if st == "Stopped" else 0
        # a Restart passes through Stopped without being a Stop; it may stay there a tick longer when another command
        # fails in the tick in which it would finish (the failure ends that tick's command phase). Until the new run
        # has started the Stopped state belongs to the Restart
        recent = [r for r in w.requests if r[1] == "control" and r[2] in ("Stop", "Restart") and r[3] and w.tick_no - r[0] <= 4]
        if st == "Restarting" or (recent and recent[-1][2] == "Restart" and not any(e[1] == "start" and e[0] > recent[-1][0]
                                                                                   for e in w.events[-12:])):
            # (the state may never show Restarting at a tick boundary: a timed Pause cancelled by the Restart unpauses and
            # sets Running in the same tick)
            self.restart_in_flight = 6
        elif any(e[1] == "start" for e in w.events[self.ev_pos_c08:]):
            self.restart_in_flight = 0
        elif self.restart_in_flight > 0:
            self.restart_in_flight -= 1
        self.ev_pos_c08 = len(w.events)
        for ev in w.plog.events[self.cmd_pos:]:
            if ev[1] == "exec" and st == "Paused":
                self.pause_cmd_writes |= {"Set1": {"OUT1"}, "Ramp": {"OUT1"}, "Valve": {"OUT2"}, "SlowOpen": {"OUT2"}, "SlowFull": {"OUT1"},
                                          "OpenValve": {"OUT2"}, "Full": {"OUT1"}}.get(ev[2], set())
        self.cmd_pos = len(w.plog.events)
        # while no run is active the engine writes no other value to a safe-valued output
        if self.prev_state == "Stopped" and st == "Stopped":
            for (_, name, val) in new_writes:
                if name in SAFE_HW and val != SAFE_HW[name]:
                    self.v("C08", "C08.unsafe_write_while_no_run", name, f"wrote {name}={val!r} while Stopped")
        # "after every Stop": Restart passes through Stopped for one tick and is not a Stop, so the state has to
        # persist for a second tick before it is judged (a Stop that never writes safe values stays unsafe)
        if st == "Stopped" and (self.phase == "boot" or self.stopped_ticks >= 2) and not self.restart_in_flight:
            kind = "C08.not_safe_before_first_run" if self.phase == "boot" else "C08.not_safe_after_stop"
            for name, sv in SAFE_HW.items():
                if mem.get(name) != sv:
                    self.v("C08", kind, name, f"state Stopped ({self.phase}) but hardware holds {name}={mem.get(name)!r}, safe {sv!r}")
        if st == "Paused" and self.prev_state != "Paused" and self.recent_button and self.recent_button[0] == w.tick_no - 1:
            self.user_touched.add(self.recent_button[1])
        if st == "Stopped" and (self.phase == "boot" or self.stopped_ticks >= 2) and not self.restart_in_flight:
            pass
        elif st == "Paused" and self.prev_state == "Paused":
            # from the tick after the transition to Paused
            for name, sv in SAFE_HW.items():
                if name in self.user_touched:
                    continue
                if mem.get(name) != sv:
                    k = "C08.error_pause_not_safe" if err else "C08.not_safe_while_paused"
                    if name in self.pause_cmd_writes:
                        k = "C08.running_command_writes_during_pause"
                    sim = ""
                    try:
                        if w.engine.tags[name].simulated:
                            # the output tag is simulated: what is written to the hardware is the simulated value, also
                            # while the tag itself holds the safe value (a defect of its own, with its own context)
                            sim = "@simulated_output"
                    except Exception:
                        pass
                    if sim:
                        k, sim = "C08.not_safe_while_paused", "@simulated_output"
                    self.v("C08", k + sim, name, f"Paused (error={err}) but hardware holds {name}={mem.get(name)!r}, safe {sv!r}"
                           + (" (the tag is simulated)" if sim else ""))
        if st != "Paused":
            self.user_touched.clear()
            self.pause_cmd_writes.clear()
        if st not in ("Stopped",):
            if self.phase in ("boot", "stopped"):
                self.phase = "run"
        elif self.phase == "run":
            self.phase = "stopped"
        self.prev_state = st

    def at_start(self):
        # engine.run() has just been called: outputs must already be safe on the hardware
        for name, sv in SAFE_HW.items():
            if self.w.hw.mem.get(name) != sv:
                self.v("C08", "C08.not_safe_after_engine_start", name,
                       f"after engine start hardware holds {name}={self.w.hw.mem.get(name)!r}, safe {sv!r}")


class C09Unpause(Oracle):
    """Unpause restores exactly the output values in effect immediately before the most recent Pause."""

    def __init__(self, world, plan, res):
        super().__init__(world, plan, res)
        self.shadow: dict[str, Any] | None = None     # outputs at the end of the last tick before the Pause executed
        self.prev_outputs: dict[str, Any] = {}
        self.prev_state = "Stopped"
        self.user_touched: set[str] = set()
        self.pause_was_error = False
        self.ev_pos = 0

    def _outs(self):
        return {n: self.w.tag(n) for n in SAFE}

    recent_button: tuple | None = None

    def before_request(self, kind, msg):
        if kind == "control" and getattr(msg, "name", "") in ("OpenValve", "Full"):
            out = "OUT2" if msg.name == "OpenValve" else "OUT1"
            if self.w.state == "Paused":
                self.user_touched.add(out)     # the user commands that output during the pause
            else:
                # pressed in the gap before the tick in which a pause begins: it executes in that tick, possibly after the
                # Pause command - from the engine's point of view the user commanded the output during the pause
                self.recent_button = (self.w.tick_no, out)
        if kind == "inject" and self.w.state == "Paused":
            txt = msg.pcode
            if any(k in txt for k in ("Set1", "Ramp")):
                self.user_touched.add("OUT1")
            if "Valve" in txt:
                self.user_touched.add("OUT2")

    def before_tick(self, w, inc):
        self.prev_outputs = self._outs()
        self.prev_state = w.state
        self.ev_pos = len(w.events)
        self.oc_pos = len(w.output_changes)
        self.pl_pos = len(w.plog.events)

    def after_tick(self, w, inc):
        evs = w.events[self.ev_pos:]
        paused_now = any(e[1] == "runstate" and e[2] == "Pause" for e in evs)
        unpaused_now = any(e[1] == "runstate" and e[2] == "Unpause" for e in evs)
        stop_now = any(e[1] in ("stop", "start") for e in evs)
        seen: dict[str, set] = {n: set() for n in SAFE}       # values each output tag took during this tick
        for (_, n, val) in w.output_changes[self.oc_pos:]:
            if n in seen:
                seen[n].add(val)
        if stop_now:
            self.shadow = None
            self.user_touched.clear()
            return
        if paused_now and not unpaused_now:
            # acceptable pre-pause values: the value before this tick, or a value a command set in this very
            # tick before the Pause executed (the safe value itself only if it was the value before)
            self.shadow = {n: {self.prev_outputs[n]} | (seen[n] - {SAFE[n]}) for n in SAFE}
            for ev in w.plog.events[self.pl_pos:]:
                # a command that executed in the very tick of the Pause may have set the value the Pause captured
                if ev[1] == "exec":
                    if ev[2] == "Set1":
                        self.shadow["OUT1"].add(float(ev[5]))
                    elif ev[2] == "Ramp":
                        self.shadow["OUT1"].add(10.0 + ev[4])
                    elif ev[2] == "Valve":
                        self.shadow["OUT2"].add(ev[5])
            if sum(1 for e in evs if e[1] == "runstate" and e[2] == "Pause") > 1 or self.prev_state == "Paused":
                # a Pause executed while already paused: "immediately before the most recent Pause" the outputs
                # were in their safe state, so restoring that is within the letter of the statement
                for n in SAFE:
                    self.shadow[n].add(SAFE[n])
            self.user_touched.clear()
            self.res.probe("pause_captured")
            return
        if unpaused_now and not paused_now:
            cur = self._outs()
            if self.shadow is not None:
                self.res.probe("unpause_checked")
                writers = {"Set1": "OUT1", "Ramp": "OUT1", "Valve": "OUT2", "SlowOpen": "OUT2", "SlowFull": "OUT1",
                           "OpenValve": "OUT2", "Full": "OUT1"}
                wrote_now = {writers[ev[2]] for ev in w.plog.events[self.pl_pos:] if ev[1] == "exec" and ev[2] in writers}
                for n, ok_vals in self.shadow.items():
                    if n in self.user_touched or n in wrote_now:
                        continue        # (a command that executes in the very tick of the Unpause may set the output again)
                    if not (({cur[n]} | seen[n]) & ok_vals):
                        self.v("C09", "C09.unpause_restored_wrong_value", n,
                               f"Unpause left {n}={cur[n]!r} (values in that tick {sorted(map(str, seen[n]))}); "
                               f"value before that pause was {sorted(map(str, ok_vals))}")
                self.shadow = None
            else:
                # Unpause without a Pause command in this run (error pause): it has nothing to restore
                self.res.probe("unpause_after_error_pause")
                cmd_ran = any(ev[0] == w.tick_no and ev[1] == "exec" for ev in w.plog.events[-8:])
                for n, val in self.prev_outputs.items():
                    if n in self.user_touched or cmd_ran:
                        continue
                    if cur[n] != val:
                        self.v("C09", "C09.unpause_applied_stale_state", n,
                               f"Unpause without a preceding Pause in this run changed {n}: {val!r} -> {cur[n]!r}")


class C15RunLog(Oracle):
    """The run log can be produced every tick and is well formed."""

    def __init__(self, world, plan, res):
        super().__init__(world, plan, res)
        self.every = plan.get("cfg", {}).get("runlog_every", 1)
        self._reported: set = set()
        self._kinds = None
        self._kinds_src = None

    def after_tick(self, w, inc):
        if w.tick_no % self.every:
            return
        self.check()

    def _diagnose(self, exname: str) -> str:
        """Name the record shape that broke run-log production: <node class>:<conclusive state>-><next state>."""
        try:
            for r in self.w.engine.interpreter.runtimeinfo.records:
                per: dict[str, list[str]] = {}
                for st in r.states:
                    per.setdefault(st.instance_id, []).append(str(st.state_name))
                for states in per.values():
                    for a, b in zip(states, states[1:]):
                        if a in ("completed", "failed", "cancelled"):
                            return f"{r.node_class_name}:{a}->{b}"
        except Exception:
            pass
        return exname

    def check(self):
        w = self.w
        try:
            rl = w.runlog()
        except Exception as ex:
            self.v("C15", "C15.runlog_raised", self._diagnose(type(ex).__name__), repr(ex))
            return
        ids = set()
        prev_start = None
        for it in rl.items:
            if it.id in ids:
                self.v("C15", "C15.duplicate_item_id", it.name.split(":")[0], f"run log item id {it.id} twice ({it.name})")
            ids.add(it.id)
            if prev_start is not None and it.start < prev_start - 1e-9:
                self.v("C15", "C15.items_not_sorted", "order", f"{it.name} start {it.start} after {prev_start}")
            prev_start = it.start
            concl = str(it.state) in ("completed", "failed", "cancelled") or it.state.name in ("Completed", "Failed", "Cancelled")
            if it.end is not None and it.end < it.start - 1e-9:
                self.v("C15", "C15.end_before_start", it.name.split(":")[0], f"{it.name}: end {it.end} < start {it.start}")
            if concl:
                if it.end is None:
                    self.v("C15", "C15.concluded_without_end", it.name.split(":")[0], f"{it.name} {it.state} has no end time")
                if it.cancellable or it.forcible:
                    self.v("C15", "C15.concluded_still_offered", it.name.split(":")[0],
                           f"{it.name} {it.state} cancellable={it.cancellable} forcible={it.forcible}")
        self.res.probe("runlog_checked")
        self._executed_have_completed_items(rl)

    NO_ITEM_KINDS = ("Stop", "blank", "comment", "error", "root")

    def _executed_have_completed_items(self, rl):
        """Every method instruction other than Stop, blank and comment lines that completed appears as a completed item."""
        w = self.w
        if "edit" in w.ctx_flags or not self.plan.get("cfg", {}).get("wellformed"):
            return          # after a live edit the records are those of a fresh interpreter (recorded under C01/C15@edit)
        from . import model
        if getattr(self, "_kinds", None) is None or self._kinds_src is not w.method_lines:
            self._kinds = {n.id: n for n in model.parse(w.method_lines).walk()}
            self._kinds_src = w.method_lines
        ms = w.method_state()
        items = {}
        for it in rl.items:
            items.setdefault(str(it.id), []).append(it)
        recs = {r.node_id: r for r in w.engine.interpreter.runtimeinfo.records}
        for lid in ms.executed_line_ids:
            n = self._kinds.get(lid)
            if n is None or n.kind in self.NO_ITEM_KINDS:
                continue
            r = recs.get(lid)
            insts = {str(st.instance_id) for st in r.states} if r is not None else set()
            its = [it for i in insts for it in items.get(i, [])]
            # a cancelled instruction is reported executed by the method state while its item (rightly) says cancelled
            if not any(str(it.state).lower().endswith(("completed", "cancelled")) for it in its):
                key = (lid, "missing" if not its else "not_completed")
                if key in self._reported:
                    continue
                self._reported.add(key)
                self.v("C15", "C15.executed_instruction_without_completed_item", n.kind,
                       f"line {lid} {n.text.strip()!r} is reported executed but the run log has "
                       f"{'no item for it' if not its else 'only ' + str([str(it.state) for it in its])}")
            else:
                self.res.probe("executed_line_has_completed_item")
