"""SIM-E: the engine tick simulator."""
from __future__ import annotations

import random
from typing import Any, Iterator

from simcore.core import Recorder, RunResult, Tape, stable_hash
from simcore.driver import Simulator

from . import gen
from .world import EngineWorld

CONTROL = ["Start", "Stop", "Pause", "Unpause", "Hold", "Unhold", "Restart"]
DTS_JITTER = [0.05, 0.1, 0.1, 0.1, 0.15, 0.3, 0.5]
# the harness's own copy of the unit families the engine documents (plans must not depend on the tree under test)
UNIT_FAMILIES = {
    "time": ["s", "min", "h", "ms"], "length": ["m", "cm"], "area": ["m2", "dm2", "cm2"], "mass": ["kg", "g"],
    "density": ["kg/L", "g/L"], "temperature": ["degC", "degF", "K"], "amount": ["mol"], "volume": ["L", "mL"],
    "flow": ["L/h", "L/min", "L/d"], "frequency": ["Hz", "kHz"], "pressure": ["Pa", "bar"],
    "massflow": ["kg/h", "g/s", "g/min", "g/h"], "conductivity": ["mS/cm"], "percentage": ["%", "vol%", "wt%", "mol%"],
    "cv": ["CV"], "absorbance": ["AU", "mAU"], "permeability": ["LMH/bar", "L/m2/h/bar"], "flux": ["LMH", "L/m2/h"]}


def _oracles_for(world, plan, res):
    from . import oracles_basic as ob
    from . import oracles_exec as oe
    out = [ob.C06RunState(world, plan, res), ob.C06Model(world, plan, res), ob.C07Clocks(world, plan, res), ob.C16TagTimes(world, plan, res),
           ob.C36Reports(world, plan, res), ob.C08SafeOutputs(world, plan, res), ob.C09Unpause(world, plan, res),
           ob.C15RunLog(world, plan, res)]
    out += oe.make(world, plan, res)
    return out


def _bodies_intact(method: list) -> bool:
    """Every Block / Watch / Alarm / Macro line is followed by a more deeply indented, non-blank line."""
    import re
    for k, (_, c) in enumerate(method):
        if re.match(r"^\s*([0-9.]+ )?(Block|Watch|Alarm|Macro)\b", c):
            ind = len(c) - len(c.lstrip(" "))
            nxt = method[k + 1][1] if k + 1 < len(method) else ""
            if not nxt.strip() or len(nxt) - len(nxt.lstrip(" ")) <= ind:
                return False
    return True


def _report_op(rng):
    """An update report, or - as on connect / reconnect - a snapshot of all tags."""
    return ["report", "snapshot"] if rng.random() < 0.25 else ["report"]


class SimE(Simulator):
    name = "sime"
    components_real = [
        "openpectus.engine.engine.Engine", "CommandManager", "InternalCommandsRegistry + internal commands",
        "MethodManager", "HotSwapVisitor", "PcodeParser", "PInterpreter", "Tracking/RuntimeInfo (run log)",
        "system tags + tags_impl", "EventEmitter", "UodBuilder/UodCommand (probe UOD)", "EngineMessageBuilder",
        "EngineMessageHandlers (requests enter through the real handler coroutines)",
        "ErrorRecoveryDecorator (recovery profiles)", "ArchiverTag (archive profile)"]
    components_stub = ["hardware (SimHardware register memory + fault plan)", "tick timer (the simulator calls Engine.tick)",
                       "clock (module-level time/datetime -> SimClock)", "uuid (counter)", "file system (archive profile)"]

    def prepare(self, profiles: list[str]) -> None:
        if "analyze" in profiles:     # heavy imports once in the parent, not once per forked worker
            import openpectus.lsp.lsp_analysis  # noqa F401
            import openpectus.lang.exec.analyzer  # noqa F401

    # ------------------------------------------------------------------ plan generation
    def gen_plan(self, rng: random.Random, profile: str, tier: str) -> dict:
        fn = getattr(self, "_gen_" + profile, None)
        if fn is None:
            raise ValueError(f"unknown SIM-E profile {profile}")
        plan = fn(rng, tier)
        plan["profile"] = profile
        return plan

    # -- profile: control sequences with output-driving methods (C06, C07, C08, C09)
    def _gen_control(self, rng: random.Random, tier: str) -> dict:
        feats = gen.pick_features(rng, always=["uod_short", "uod_long"], never=["alarm", "macro"], p=0.4)
        method = gen.gen_method(rng, feats, max_lines=rng.randint(3, 14), max_depth=2, time_scale=0.5)
        jitter = rng.random() < 0.4
        ops: list[list] = []
        if rng.random() < 0.15:
            ops.append(["tick", rng.randint(1, 3), 0.1])
        if rng.random() < 0.12:
            # a UOD command button pressed while no run is active (valid, without its argument, failing)
            ops.append(["user", rng.choice(["Set1", "Valve", "Boom", "LongA", "BadArgs", "Set3"])])
            ops.append(["tick", rng.randint(1, 3), 0.1])
        n_cmds = rng.randint(2, 8)
        state_guess = "Stopped"
        # a quarter of the runs mix Pause and Hold: the four flag commands in a drawn order after Start (each of the
        # 24 orders is a different path through the (holding, paused) square)
        mix = rng.sample(["Pause", "Hold", "Unpause", "Unhold"], 4) + [rng.choice(["Unpause", "Unhold", "Pause", "Hold"])] \
            if rng.random() < 0.25 else None
        for i in range(n_cmds):
            if state_guess == "Stopped" and rng.random() < 0.85:
                c = "Start"
            elif mix:
                c = mix.pop(0)
            else:
                c = rng.choice(CONTROL)
            ops.append(["user", c])
            if c == "Start":
                state_guess = "Running"
            elif c == "Stop":
                state_guess = "Stopped" if state_guess != "Stopped" else state_guess
            if rng.random() < 0.15:
                ops.append(["user", rng.choice(CONTROL)])     # two requests in one gap
            dt = rng.choice(DTS_JITTER) if jitter else 0.1
            if c in ("Stop", "Restart") and rng.random() < 0.35:
                # a flag command in the window in which the Stop / Restart is under way (it takes more than one tick)
                ops.append(["tick", rng.choice([1, 1, 2]), dt])
                ops.append(["user", rng.choice(["Pause", "Hold", "Pause", "Hold", "Unpause", "Unhold"])])
            ops.append(["tick", rng.choice([1, 1, 2, 3, 4, 6, 12]), dt])
            r = rng.random()
            if r < 0.2:
                ops.append(["inject", rng.choice(["Set1: %d %%" % rng.randint(200, 299), "Valve: Open", "Ramp: 4",
                                                  "Valve: Closed"])])
                ops.append(["tick", rng.choice([1, 3, 5]), dt])
            elif r < 0.3:
                ops.append(_report_op(rng))
            elif r < 0.35:
                ops.append(["tick", 1, rng.choice([2.0, 5.0, 30.0])])     # stall
            elif r < 0.45:
                ops.append(["inject", rng.choice(["Boom", "Boom", "BadArgs: x", "Set1: abc", "NoSuchCommand: 1"])])
                ops.append(["tick", rng.choice([1, 3, 5]), dt])
            elif r < 0.5:
                ops.append(["user", rng.choice(["Set1", "Valve", "Boom", "LongA", "BadArgs"])])
                ops.append(["tick", rng.choice([1, 2, 4]), dt])
            elif r < 0.58:
                # a command button that drives an output, pressed at a drawn distance after the control command (also in
                # the one-tick window in which a Stop is under way)
                if ops and ops[-1][0] == "tick" and ops[-1][1] > 1 and rng.random() < 0.6:
                    ops[-1] = ["tick", 1, ops[-1][2]]
                ops.append(["user", rng.choice(["OpenValve", "Full"])])
                ops.append(["tick", rng.choice([1, 2, 4]), dt])
            elif r < 0.64:
                # a slow command is started, the run is paused before it drives its output, and unpaused after it has
                ops.append(["inject", rng.choice(["SlowOpen", "SlowFull"])])
                ops.append(["tick", rng.choice([2, 3, 4]), 0.1])
                ops.append(["user", "Pause"])
                ops.append(["tick", rng.choice([3, 5, 8]), 0.1])
                ops.append(["user", "Unpause"])
                ops.append(["tick", rng.choice([1, 3]), 0.1])
        ops.append(["tick", rng.randint(2, 10), 0.1])
        ops.append(["report"])
        return {"cfg": {"recovery": False, "runlog_every": 3}, "method": method, "ops": ops}

    # -- profile: free-running generated methods with PV trajectories and reports (C16, C36, C15 ...)
    def _gen_run(self, rng: random.Random, tier: str) -> dict:
        feats = gen.pick_features(rng)
        method = gen.gen_method(rng, feats, max_lines=rng.randint(4, 25), time_scale=0.5)
        ops: list[list] = [["user", "Start"]]
        total = 0
        budget = rng.choice([60, 120, 200])
        vol_rate = rng.choice([0.0, 0.05, 0.2])
        if vol_rate:
            ops.append(["volrate", vol_rate])
        while total < budget:
            n = rng.choice([1, 2, 3, 5, 8, 13])
            ops.append(["tick", n, 0.1])
            total += n
            r = rng.random()
            if r < 0.35:
                name = rng.choice(list(gen.PV_VALUES))
                ops.append(["pv", name, rng.choice(gen.PV_VALUES[name])])
            elif r < 0.5:
                ops.append(_report_op(rng))
                if rng.random() < 0.25:
                    name = rng.choice(list(gen.PV_VALUES))
                    a, b = rng.sample(gen.PV_VALUES[name], 2)
                    ops += [["report_midtick", name, a, b]] + ([["report"]] if rng.random() < 0.6 else [])
                if rng.random() < 0.3:
                    # a value that goes away and comes back between reports of different kinds
                    name = rng.choice(list(gen.PV_VALUES))
                    a, b = rng.sample(gen.PV_VALUES[name], 2)
                    ops += [["pv", name, a], ["tick", 1, 0.1], ["report"], ["pv", name, b], ["tick", 1, 0.1], _report_op(rng),
                            ["pv", name, a], ["tick", 1, 0.1], ["report"]]
            elif r < 0.56:
                ops.append(["user", rng.choice(["Pause", "Unpause", "Hold", "Unhold"])])
            elif r < 0.58:
                ops.append(["user", rng.choice(["Stop", "Restart", "Start"])])
        ops.append(["report"])
        return {"cfg": {"recovery": False, "runlog_every": 2}, "method": method, "ops": ops}

    # -- profile: well-formed generated methods, no requests, PV trajectories (C02, C03, C04, C05, C41)
    def _gen_exec(self, rng: random.Random, tier: str) -> dict:
        always = []
        r = rng.random()
        if r < 0.25:
            always = ["macro"]
        elif r < 0.5:
            always = ["watch", "alarm"]
        elif r < 0.7:
            always = ["block", "threshold", "wait", "base"]
        feats = gen.pick_features(rng, always=always, never=["pause", "hold"] if rng.random() < 0.7 else [])
        method = gen.gen_method(rng, feats, max_lines=rng.randint(3, 25), time_scale=0.5)
        if rng.random() < 0.3:
            method = gen.gen_scenario(rng)
        ops: list[list] = [["user", "Start"]]
        if rng.random() < 0.4:
            ops.append(["volrate", rng.choice([0.05, 0.2, 0.5])])
        total = 0
        budget = rng.choice([40, 80, 150])
        while total < budget:
            n = rng.choice([1, 2, 3, 5, 8, 13])
            ops.append(["tick", n, 0.1])
            total += n
            if rng.random() < 0.5:
                name = rng.choice(list(gen.PV_VALUES))
                ops.append(["pv", name, rng.choice(gen.PV_VALUES[name])])
        ops.append(["settle", 300])
        ops.append(["end_stop"])
        return {"cfg": {"recovery": False, "runlog_every": 4, "wellformed": True}, "method": method, "ops": ops}

    # -- profile: thresholds and waits with user Pause / Hold sequences between ticks (C03)
    def _gen_holdpause(self, rng: random.Random, tier: str) -> dict:
        feats = gen.pick_features(rng, always=["threshold", "wait", "base"], never=["pause", "hold", "alarm", "macro", "simulate"], p=0.3)
        method = gen.gen_method(rng, feats, max_lines=rng.randint(3, 10), max_depth=1, time_scale=1.0)
        if rng.random() < 0.5:
            method = [["L000", "Base: s"], ["L001", "Mark: h1"], ["L002", f"{rng.choice([2.0, 3.0, 4.5])} Mark: h2"],
                      ["L003", f"Wait: {rng.choice([0.5, 1.0])}s"], ["L004", "Mark: h3"]]
        ops: list[list] = [["user", "Start"], ["tick", rng.choice([2, 4, 6]), 0.1]]
        seqs = [["Pause", "Unpause"], ["Hold", "Unhold"], ["Pause", "Hold", "Unpause", "Unhold"], ["Hold", "Pause", "Unhold", "Unpause"],
                ["Hold", "Pause", "Unpause", "Unhold"], ["Pause", "Hold", "Unhold", "Unpause"]]
        for _ in range(rng.randint(1, 3)):
            for c in rng.choice(seqs):
                ops.append(["user", c])
                ops.append(["tick", rng.choice([1, 3, 8, 20, 40]), 0.1])
            ops.append(["tick", rng.choice([2, 6, 15]), 0.1])
        ops.append(["settle", 300])
        ops.append(["end_stop"])
        return {"cfg": {"recovery": False, "runlog_every": 10, "wellformed": True}, "method": method, "ops": ops}

    # -- profile: live edits (and injections) at drawn ticks (C01, C14)
    def _gen_edit(self, rng: random.Random, tier: str) -> dict:
        feats = gen.pick_features(rng, never=["pause", "hold", "simulate"], p=0.45)
        method = gen.gen_method(rng, feats, max_lines=rng.randint(3, 18), time_scale=0.5)
        ops: list[list] = [["user", "Start"]]
        n_req = rng.randint(1, 4)
        uniq = 500
        for i in range(n_req):
            ops.append(["tick", rng.choice([1, 2, 3, 4, 5, 7, 10, 15, 25]), 0.1])
            if rng.random() < 0.4:
                name = rng.choice(list(gen.PV_VALUES))
                ops.append(["pv", name, rng.choice(gen.PV_VALUES[name])])
            r = rng.random()
            uniq += 10
            if r < 0.35:
                ops.append(["edit", "append", 0, [f"Mark: a{uniq}"] + ([f"Set3: {uniq}"] if rng.random() < 0.3 else [])])
            elif r < 0.45:
                ops.append(["edit", "append_scope", rng.randint(0, 5), [f"Mark: a{uniq}"]])
            elif r < 0.6:
                ops.append(["edit", "change_future", rng.randint(0, 9), f"Mark: c{uniq}"])
            elif r < 0.68:
                ops.append(["edit", "delete_future", rng.randint(0, 9), None])
            elif r < 0.76:
                ops.append(["edit", "change_started", rng.randint(0, 9), f"Mark: x{uniq}"])
            elif r < 0.8:
                ops.append(["edit", "reindent_started", rng.randint(0, 9), rng.randint(0, 1)])
            elif r < 0.85:
                ops.append(["edit", "same", 0, None])
            else:
                ops.append(["inject", gen.gen_snippet(rng, uniq)])
        ops.append(["tick", rng.choice([3, 10, 30]), 0.1])
        ops.append(["settle", 300])
        ops.append(["end_stop"])
        return {"cfg": {"recovery": False, "runlog_every": 4, "wellformed": True}, "method": method, "ops": ops}

    # -- profile: edits of macro definitions that have / have not been called yet (C41)
    def _gen_macroedit(self, rng: random.Random, tier: str) -> dict:
        names = ["MA", "MB", "MC", "MD"][:rng.randint(1, 4)]
        u = [0]

        def mk():
            u[0] += 1
            return f"Mark: q{u[0]}"
        defs = {}
        for nm in names:
            body = [mk() for _ in range(rng.randint(1, 3))]
            if rng.random() < 0.3:
                body.insert(rng.randint(0, len(body)), f"Wait: {rng.choice([0.2, 0.4])}s")
            if rng.random() < 0.2:
                body.append(rng.choice(["Set3: %d" % (900 + u[0]), "Ramp: 2"]))
            defs[nm] = [f"Macro: {nm}"] + ["    " + b for b in body]
        main: list[list[str]] = []
        order = names[:]
        rng.shuffle(order)
        # all definitions first (in drawn order), or each definition right before its first use
        upfront = rng.random() < 0.6
        if upfront:
            for nm in order:
                main.append(defs[nm])
        called = [rng.choice(names) for _ in range(rng.randint(1, 5))]
        defined = set(names) if upfront else set()
        for nm in called:
            if nm not in defined:
                main.append(defs[nm])
                defined.add(nm)
            main.append([mk()] if rng.random() < 0.6 else [f"Wait: {rng.choice([0.2, 0.5, 1.0])}s"])
            main.append([f"Call macro: {nm}"])
        for nm in names:
            if nm not in defined:
                main.append(defs[nm])
        main.append([f"Wait: {rng.choice([0.5, 1.0, 2.0])}s", mk()])
        flat = [ln for grp in main for ln in grp]
        method = [[f"L{i:03d}", ln] for i, ln in enumerate(flat)]
        ops: list[list] = [["user", "Start"]]
        uniq = 800
        for _ in range(rng.randint(1, 2)):
            ops.append(["tick", rng.choice([2, 3, 4, 5, 6, 8, 10, 13, 17, 22, 30]), 0.1])
            uniq += 10
            kind = rng.choice(["macro_add", "macro_add", "macro_change", "macro_remove"])
            ops.append(["edit", kind, rng.randint(0, 50), f"Mark: e{uniq}"])
        ops.append(["tick", rng.choice([3, 10, 30]), 0.1])
        ops.append(["settle", 200])
        ops.append(["end_stop"])
        return {"cfg": {"recovery": False, "runlog_every": 4, "wellformed": True}, "method": method, "ops": ops}

    # -- profile: injections around pauses/holds (C14)
    def _gen_inject(self, rng: random.Random, tier: str) -> dict:
        feats = gen.pick_features(rng, never=["pause", "hold", "simulate", "alarm"], p=0.4)
        method = gen.gen_method(rng, feats, max_lines=rng.randint(2, 14), time_scale=0.5)
        ops: list[list] = [["user", "Start"]]
        uniq = 700
        for i in range(rng.randint(1, 4)):
            ops.append(["tick", rng.choice([1, 2, 3, 5, 8, 13]), 0.1])
            r = rng.random()
            uniq += 10
            if r < 0.2:
                ops.append(["user", rng.choice(["Pause", "Hold"])])
                ops.append(["tick", rng.choice([1, 2]), 0.1])
                ops.append(["inject", gen.gen_snippet(rng, uniq)])
                ops.append(["tick", rng.choice([2, 5]), 0.1])
                ops.append(["user", rng.choice(["Unpause", "Unhold"])])
                ops.append(["user", rng.choice(["Unpause", "Unhold"])])
            else:
                ops.append(["inject", gen.gen_snippet(rng, uniq)])
                r2 = rng.random()
                if r2 < 0.25:
                    ops.append(["tick", rng.choice([1, 2]), 0.1])
                    ops.append(["edit", "append", 0, [f"Mark: a{uniq}"]])
                elif r2 < 0.5:
                    # a second snippet while whatever the first one started may still be under way
                    ops.append(["tick", rng.choice([1, 2, 4, 5, 6, 7, 9]), 0.1])
                    ops.append(["inject", gen.gen_snippet(rng, uniq + 5)])
        ops.append(["tick", 20, 0.1])
        ops.append(["settle", 200])
        ops.append(["end_stop"])
        ops.append(["twin_check"])
        return {"cfg": {"recovery": False, "runlog_every": 4, "wellformed": True}, "method": method, "ops": ops}

    # -- profile: cancel / force of run-log items at drawn ticks (C12, C04)
    def _gen_cancelforce(self, rng: random.Random, tier: str) -> dict:
        feats = gen.pick_features(rng, always=["watch", "wait", "threshold", "uod_long", "pause", "hold"],
                                  never=["simulate"], p=0.3)
        method = gen.gen_method(rng, feats, max_lines=rng.randint(3, 16), time_scale=1.0)
        ops: list[list] = [["user", "Start"]]
        if rng.random() < 0.12:
            # a Watch in the body of an Alarm is cancelled while it waits; the Alarm body completes and the Alarm re-arms
            # without activating again; then the Watch's condition comes true
            u = rng.randint(100, 999)
            wait = rng.choice([0.3, 0.5, 0.8])
            method = [["S0", "Alarm: PV1 > 5 L/h"], ["S1", "    Watch: LVL > 60 %"], ["S2", f"        Mark: wb{u}"],
                      ["S3", f"    Wait: {wait}s"], ["S4", f"    Mark: ab{u}"], ["S5", "Wait: 4s"], ["S6", f"Mark: end{u}"]]
            ops += [["pv", "PV1", 0.0], ["pv", "LVL", 10.0], ["tick", rng.choice([1, 2]), 0.1], ["pv", "PV1", 10.0],
                    ["tick", rng.choice([2, 3]), 0.1], ["pv", "PV1", 0.0], ["tick", 1, 0.1],
                    [rng.choice(["cancel", "cancel", "cancel", "force"]), 0, "named:Watch: LVL > 60 %"],
                    ["tick", rng.choice([8, 12]), 0.1], ["pv", "LVL", 90.0], ["tick", 8, 0.1], ["tick", 25, 0.1],
                    ["settle", 200], ["end_stop"]]
            return {"cfg": {"recovery": False, "runlog_every": 3, "wellformed": True}, "method": method, "ops": ops}
        if rng.random() < 0.2:
            # two injected snippets alive at the same time: a Watch that waits for its condition, then a second snippet, then
            # a cancel (or force) of the first snippet's Watch, then the condition comes true
            u = rng.randint(100, 999)
            ops.append(["pv", "LVL", 10.0])
            ops.append(["tick", rng.choice([1, 2, 4]), 0.1])
            ops.append(["inject", rng.choice([f"Mark: ia{u}\nWatch: LVL > 77 %\n    Mark: iwb{u}",
                                              f"Watch: LVL > 77 %\n    Mark: iwb{u}",
                                              f"Spin\nWatch: LVL > 77 %\n    Mark: iwb{u}"])])
            ops.append(["tick", rng.choice([1, 2, 3]), 0.1])
            ops.append(["inject", rng.choice(["LongC: 6", "Spin", f"Mark: ib{u}\nLongC: 6", f"Mark: ib{u}", "Churn",
                                              f"Watch: PV2 > 900 degC\n    Mark: ic{u}"])])
            ops.append(["tick", rng.choice([1, 2]), 0.1])
            ops.append([rng.choice(["cancel", "cancel", "force"]), 0, "named:Watch: LVL > 77 %"])
            ops.append(["tick", rng.choice([2, 4]), 0.1])
            ops.append(["pv", "LVL", 90.0])
            ops.append(["tick", 6, 0.1])
        for i in range(rng.randint(1, 5)):
            ops.append(["tick", rng.choice([1, 2, 3, 4, 6, 9, 14]), 0.1])
            if rng.random() < 0.3:
                name = rng.choice(list(gen.PV_VALUES))
                ops.append(["pv", name, rng.choice(gen.PV_VALUES[name])])
            if rng.random() < 0.25:
                # a user control command next to the method's own Pause/Hold: both flags can be set at once
                ops.append(["user", rng.choice(["Pause", "Hold", "Unpause", "Unhold", "Pause", "Hold"])])
                ops.append(["tick", rng.choice([1, 2, 3]), 0.1])
            r = rng.random()
            what = rng.choice(["cancel", "force"])
            mode = "offered" if r < 0.6 else ("any" if r < 0.93 else "unknown")
            ops.append([what, rng.randint(0, 30), mode])
        if rng.random() < 0.5:
            ops.append(["tick", 3, 0.1])
            ops.append(["user", "Unpause"])
            ops.append(["tick", 1, 0.1])
            ops.append(["user", "Unhold"])
        ops.append(["tick", 25, 0.1])
        ops.append(["settle", 200])
        ops.append(["end_stop"])
        return {"cfg": {"recovery": False, "runlog_every": 3, "wellformed": True}, "method": method, "ops": ops}

    # -- profile: Stop / Restart swept over ticks with long-running and overlapping commands (C10, C11)
    def _gen_stoprestart(self, rng: random.Random, tier: str) -> dict:
        feats = gen.pick_features(rng, always=["uod_long", "uod_short"], p=0.4)
        method = gen.gen_method(rng, feats, max_lines=rng.randint(3, 16), time_scale=0.5)
        if rng.random() < 0.4:
            k = rng.randint(0, len(method))
            method = method[:k] + [["S%03d" % k, rng.choice(["Stop", "Restart"])]] + method[k:]
        if rng.random() < 0.5:
            method = [["F000", "Mark: first"]] + method      # "runs again from its first line" is observable
        ops: list[list] = []
        if rng.random() < 0.15:
            # a command button pressed while no run is active; the command is still running when the run that is started
            # next gets stopped or restarted
            ops += [["user", rng.choice(["Churn", "Churn", "Spin"])], ["tick", rng.choice([1, 2, 4]), 0.1]]
        ops.append(["user", "Start"])
        for i in range(rng.randint(1, 4)):
            ops.append(["tick", rng.choice([1, 2, 3, 4, 5, 6, 8, 11, 17]), 0.1])
            r = rng.random()
            if r < 0.25:
                ops.append(["inject", rng.choice(["LongA: 6", "LongB: 6", "LongC: 5", "Ramp: 5", "Simulate: PV1 = 4 L/h",
                                                  "Boom", "BadArgs: 1", "BoomInit", "Spin", "Spin\nSpin"])])
            elif r < 0.75:
                ops.append(["user", rng.choice(["Stop", "Restart", "Restart"])])
                ops.append(["tick", rng.choice([1, 2, 3, 5]), 0.1])
                if rng.random() < 0.5:
                    ops.append(["user", "Start"])
            elif r < 0.88:
                # a command button: once, twice in one gap (double click), or in the tick in which the method issues it
                c = rng.choice(["Spin", "Spin", "Churn", "Boom", "Valve"])
                ops.append(["user", c])
                if rng.random() < 0.5:
                    ops.append(["user", c])
            else:
                ops.append(["user", rng.choice(["Pause", "Hold", "Unpause", "Unhold"])])
        ops.append(["tick", rng.choice([2, 8, 20]), 0.1])
        ops.append(["end_stop"])
        return {"cfg": {"recovery": False, "runlog_every": 3, "wellformed": False}, "method": method, "ops": ops}

    # -- profile: malformed methods, random snippets, request storms (C13)
    def _gen_chaos(self, rng: random.Random, tier: str) -> dict:
        feats = gen.pick_features(rng, p=0.5)
        method = gen.gen_method(rng, feats, max_lines=rng.randint(2, 16), time_scale=0.5)
        junk = ["Mark", "Mark:", ": x", "Block:", "End block", "End blocks", "Watch: PV1 >", "Watch: Nope > 3", "Alarm:",
                "Watch: PV1 > 3 degC", "Set1: abc", "Set1", "Valve: Half", "Ramp: -1", "Wait: 5", "Wait: x s", "Wait: 1 L",
                "Base: furlong", "Base", "Call macro: Nope", "Macro:", "Macro: R\n    Call macro: R", "Simulate: Nope = 1",
                "Simulate: PV1 = x L/h", "Simulate off: Nope", "Run counter: x", "Pause: 1", "Hold: x", "Boom", "BoomInit",
                "BadArgs: 1", "NoSuchCommand: 1", "1.0", "0.5 ", "    Mark: indented", "\tMark: tab", "Mark: \u00e6\u00f8\u00e5 \u2603",
                "\u2603: 1", "#", "Restart", "Stop", "Info", "Warning:", "Error: e", "Notify", "Increment run counter: 3",
                "0.1 0.2 Mark: a", "Mark: a # c", "Mark: a: b", "5 Stop", "Batch:", "Stop: now", "Restart: x", "Pause: abc",
                "Hold: 1 furlong", "Unpause: 1", "Stop: now", "Pause: abc"]
        for _ in range(rng.randint(1, 5)):
            k = rng.randint(0, len(method))
            txt = rng.choice(junk).encode().decode("unicode_escape") if False else rng.choice(junk)
            txt = txt.replace("\\n", "\n")
            ind = "    " * rng.choice([0, 0, 0, 1, 2])
            for j, part in enumerate(txt.split("\n")):
                method = method[:k + j] + [["J%03d_%d" % (k, rng.randint(0, 999)), ind + part]] + method[k + j:]
        # ids must be unique
        seen = set()
        for i, ln in enumerate(method):
            if ln[0] in seen:
                ln[0] = ln[0] + "_%d" % i
            seen.add(ln[0])
        ops: list[list] = []
        if rng.random() < 0.9:
            ops.append(["user", "Start"])
        for i in range(rng.randint(2, 8)):
            ops.append(["tick", rng.choice([1, 2, 3, 5, 8]), rng.choice([0.1, 0.1, 0.05, 0.5])])
            r = rng.random()
            if r < 0.3:
                if rng.random() < 0.25:
                    # a longer snippet whose faulty line comes late (its line number lies beyond a short method)
                    good = [f"Mark: j{i}" for i in range(rng.randint(2, 9))]
                    ops.append(["inject", "\n".join(good + [rng.choice(junk).replace("\\n", "\n")])])
                else:
                    ops.append(["inject", rng.choice(junk)])
            elif r < 0.5:
                ops.append(["user", rng.choice(CONTROL + ["Set1", "Nope", ""])])
            elif r < 0.6:
                ops.append([rng.choice(["cancel", "force"]), rng.randint(0, 30), rng.choice(["any", "unknown", "offered"])])
            elif r < 0.7:
                ops.append(["edit", rng.choice(["append", "change_future", "delete_future", "same"]), rng.randint(0, 9),
                            [rng.choice(junk)] if True else None])
            elif r < 0.8:
                name = rng.choice(list(gen.PV_VALUES))
                ops.append(["pv", name, rng.choice(gen.PV_VALUES[name])])
            elif r < 0.85:
                for _ in range(rng.randint(2, 5)):
                    ops.append(["user", rng.choice(CONTROL)])
        ops.append(["tick", 5, 0.1])
        ops.append(["stop_check"])
        return {"cfg": {"recovery": False, "runlog_every": 2, "wellformed": False}, "method": method, "ops": ops}

    # -- profile: analyzer as gate, engine as executor (C20)
    def _gen_analyze(self, rng: random.Random, tier: str) -> dict:
        feats = gen.pick_features(rng, never=["pause", "hold", "alarm"], p=0.5)
        method = gen.gen_method(rng, feats, max_lines=rng.randint(2, 12), time_scale=0.3)
        near = ["Watch: PV1 > 3", "Watch: PV1 > 3 degC", "Watch: PV2 < 300 K", "Watch: LVL > 5 L/h", "Watch: Nope > 3",
                "Watch: Run Counter > 1", "Watch: Run Time > 1 min", "Watch: Block Time > 0.01 h", "Watch: OUT1 > 5 %",
                "Watch: OUT2 = Open", "Watch: System State = Running", "Watch: PV1 >= 0.001 L/min", "Watch: PV1 > 1 mL/h",
                "Watch: VOL > 1 mL", "Watch: Accumulated Volume > 0.1 L", "Watch: Accumulated CV > 0.1 CV", "Watch: CV > 1 L",
                "Set1: 5", "Set1: 5 %", "Set1: abc", "Set1: 5 L", "Set3: 1.5", "Set3: x", "Ramp: 3", "Ramp: 3.5", "Ramp: -1",
                "Valve: Open", "Valve: Half", "Valve: Open+Closed", "Valve", "LongA: 2", "LongA", "Boom: 1",
                "Simulate: PV1 = 5 L/h", "Simulate: PV1 = 5", "Simulate: PV1 = 5 degC", "Simulate: Nope = 1", "Simulate: OUT2 = Open",
                "Simulate off: PV1", "Simulate off: Nope", "Wait: 0.2s", "Wait: 0.2", "Wait: 1 L", "Base: s", "Base: L", "Base: CV",
                "Base: furlong", "Run counter: 2", "Run counter: x", "Call macro: Nope", "NoSuchCommand: 1", "Pause: 0.2s",
                "Pause: 1", "Hold: 0.2 s", "Info: hello", "Notify: hi", "0.01 Mark: thr", "Increment run counter",
                "Pause: -0.3 s", "Hold: 0,2 s", "Pause: 1.5.5 s", "Hold: x 0.2 s", "Pause: +0.2 s", "Wait: -1 s", "Wait: 0,5 s",
                "Hold: 0.2 s s", "Set1: --5 %", "Ramp: 3 3", "Set3: 1,5", "Pause: 0.2 sec", "Hold: .2 s", "Wait: 1e-1 s"]
        clean = rng.random() < 0.45      # no near-miss lines: the whole method is meant to pass the analysis
        for _ in range(0 if clean else rng.randint(1, 4)):
            k = rng.randint(0, len(method))
            txt = rng.choice(near)
            if txt.startswith("Watch"):
                method = method[:k] + [[f"N{k}a{rng.randint(0, 999)}", txt], [f"N{k}b{rng.randint(0, 999)}", "    Mark: w"]] + method[k:]
            else:
                method = method[:k] + [[f"N{k}c{rng.randint(0, 999)}", txt]] + method[k:]
        # UOD variant: extra tags / regex-number commands with drawn units, and lines that use them with units of the same
        # family, of another family, or none (the analyzer and the interpreter must agree on every pair)
        cfg: dict = {"runlog_every": 50, "wellformed": False}
        if rng.random() < 0.3:
            # a UOD without a column volume, or without a volume totalizer at all: `Base: CV` / `Base: L` have no provider
            cfg["totalizer"] = rng.choice(["volume", "none"])
            k = rng.randint(0, len(method))
            method = method[:k] + [[f"B{k}t{rng.randint(0, 999)}", rng.choice(["Base: L", "Base: CV", "Base: mL", "Base: s", "Base: min"])]] + method[k:]
        if clean or rng.random() < 0.65:
            fams = list(UNIT_FAMILIES.values())
            xt, xc = [], []
            special = [UNIT_FAMILIES["percentage"], UNIT_FAMILIES["temperature"], UNIT_FAMILIES["cv"], UNIT_FAMILIES["absorbance"]]
            for i in range(rng.randint(1, 3)):
                fam = rng.choice(special) if rng.random() < 0.4 else rng.choice(fams)
                xt.append([f"XT{i}", rng.choice(fam + [None]) if rng.random() < 0.9 else None, rng.choice([0.0, 5.0, 50.0])])
            for i in range(rng.randint(0, 2)):
                fam = rng.choice(fams)
                xc.append([f"XC{i}", rng.sample(fam, rng.randint(1, min(3, len(fam)))) if rng.random() < 0.85 else None])
            xcat = None
            if rng.random() < 0.4:
                # a categorical command with exclusive and additive options (a valve selector)
                excl = rng.sample(["Closed", "Off", "Home"], rng.randint(0, 2))
                addi = rng.sample(["VA01", "VA02", "VA03", "VA04"], rng.randint(0 if excl else 1, 3))
                xcat = ["XV", {"exclusive": excl, "additive": addi}]
                xc.append(xcat)
            cfg["extra_tags"], cfg["extra_cmds"] = xt, xc

            def unit_near(u):
                r = rng.random()
                if u is None:
                    return rng.choice([None, None, "%", "L", "s"])
                fam = next(f for f in fams if u in f)
                if r < 0.6:
                    return rng.choice(fam)
                if r < 0.7:
                    return None
                return rng.choice(rng.choice(fams))
            for _ in range(rng.randint(1, 4)):
                k = rng.randint(0, len(method))
                r = rng.random()
                if r < 0.6 or not xc:
                    name, u, _v = rng.choice(xt)
                    u2 = unit_near(u)
                    val = rng.choice(["1", "5", "0.5", "100", "-1"])
                    rhs = val if u2 is None else f"{val} {u2}"
                    if rng.random() < 0.75:
                        op_ = rng.choice([">", "<", ">=", "<=", "=", "!="])
                        method = method[:k] + [[f"V{k}a{rng.randint(0, 999)}", f"{rng.choice(['Watch', 'Alarm'])}: {name} {op_} {rhs}"],
                                               [f"V{k}b{rng.randint(0, 999)}", "    Mark: v"]] + method[k:]
                    else:
                        method = method[:k] + [[f"V{k}s{rng.randint(0, 999)}", f"Simulate: {name} = {rhs}"]] + method[k:]
                elif xcat is not None and rng.random() < 0.6:
                    opts = xcat[1]["exclusive"] + xcat[1]["additive"] + ["VA09", "Open"]
                    arg = "+".join(rng.choice(opts) for _ in range(rng.choice([1, 1, 2, 2, 3])))
                    method = method[:k] + [[f"V{k}x{rng.randint(0, 999)}", f"XV: {arg}"]] + method[k:]
                else:
                    name, us = rng.choice([c for c in xc if not isinstance(c[1], dict)] or [["XC9", None]])
                    if name == "XC9":
                        continue
                    u2 = unit_near(us[0] if us else None)
                    val = rng.choice(["1", "5", "0.5", "-1", "x"])
                    method = method[:k] + [[f"V{k}c{rng.randint(0, 999)}", f"{name}: {val}" + ("" if u2 is None else f" {u2}")]] + method[k:]
        seen = set()
        for i, ln in enumerate(method):
            if ln[0] in seen:
                ln[0] = ln[0] + "_%d" % i
            seen.add(ln[0])
        ops: list[list] = [["analyze"], ["user", "Start"], ["volrate", 0.3]]
        for _ in range(rng.randint(2, 6)):
            ops.append(["tick", rng.choice([3, 5, 8, 13]), 0.1])
            name = rng.choice(list(gen.PV_VALUES))
            ops.append(["pv", name, rng.choice(gen.PV_VALUES[name])])
        ops.append(["pv", "PV1", 10.0])
        ops.append(["pv", "PV2", 5.0])
        ops.append(["pv", "LVL", 90.0])
        ops.append(["settle", 150])
        ops.append(["analyze_verdict"])
        return {"cfg": cfg, "method": method, "ops": ops}

    # -- profile: local archive on an in-memory file system (C39)
    def _gen_archive(self, rng: random.Random, tier: str) -> dict:
        specials = ["a,b", "x;y", "back\\slash", 'q"uote', "it's", "semi; colon", "a, b; c", "tab\there", "comma,",
                    "plain", "50 %", "a\\,b", "ends\\", "cr\rx", "two\r\rcr", "ff\x0cx", "vt\x0bx", "nel\x85x",
                    # first characters that spreadsheet "formula guards" like to rewrite, and number look-alikes
                    "=2*CV, then elute", "@home", "- note", "+ 5 mL", "-x", "=", "'quoted", "-12.5", "1e3", "0x10", " lead"]
        method = []
        n = rng.randint(2, 9)
        for i in range(n):
            r = rng.random()
            if r < 0.6:
                method.append([f"L{i:03d}", f"Mark: {rng.choice(specials)}{i}"])
            elif r < 0.75:
                method.append([f"L{i:03d}", f"Set1: {i + 1} %"])
            elif r < 0.85:
                method.append([f"L{i:03d}", f"Wait: {rng.choice([0.2, 0.5])}s"])
            else:
                method.append([f"L{i:03d}", f"Valve: {rng.choice(['Open', 'Closed'])}"])
        ops: list[list] = [["user", "Start"]]
        for _ in range(rng.randint(1, 4)):
            ops.append(["tick", rng.choice([3, 6, 10, 18]), rng.choice([0.1, 0.1, 0.25])])
            r = rng.random()
            if r < 0.2:
                ops.append(["user", "Restart"])
            elif r < 0.35:
                ops.append(["user", "Stop"])
                ops.append(["tick", 3, 0.1])
                ops.append(["user", "Start"])
            elif r < 0.5:
                name = rng.choice(list(gen.PV_VALUES))
                ops.append(["pv", name, rng.choice(gen.PV_VALUES[name])])
        ops.append(["tick", 5, 0.1])
        ops.append(["end_stop"])
        ops.append(["archive_check"])
        cfg = {"archiver": True, "data_log_interval": rng.choice([0.05, 0.25, 0.6]), "runlog_every": 50, "wellformed": False}
        if rng.random() < 0.5:
            # UOD variant: tags of the unit's own, one of which opts out of the archive
            cfg["extra_tags"] = [[nm, rng.choice(["L", "%", None]), rng.choice([1.0, 7.5])]
                                 for nm in rng.sample(["XA", "NOARCH1", "XB", "NOARCH2"], rng.randint(1, 3))]
        return {"cfg": cfg, "method": method, "ops": ops}

    def shrink(self, plan: dict) -> Iterator[dict]:
        # drop method lines (whole sub-trees), shorten tick runs, normalise dt
        m = plan["method"]
        for i in range(len(m)):
            ind = len(m[i][1]) - len(m[i][1].lstrip(" "))
            j = i + 1
            while j < len(m) and (m[j][1].strip() == "" or len(m[j][1]) - len(m[j][1].lstrip(" ")) > ind):
                j += 1
            cand = m[:i] + m[j:]
            if plan.get("cfg", {}).get("wellformed") and not _bodies_intact(cand):
                continue        # the parser nests the next line under a body-less Block/Watch/Alarm/Macro: not the same method
            yield dict(plan, method=cand)
        ops = plan["ops"]
        for i, op in enumerate(ops):
            if op[0] == "tick":
                if op[1] > 1:
                    for n2 in sorted({1, op[1] // 2, op[1] - 1}):
                        if 0 < n2 < op[1]:
                            yield dict(plan, ops=ops[:i] + [["tick", n2, op[2]]] + ops[i + 1:])
                if op[2] != 0.1:
                    yield dict(plan, ops=ops[:i] + [["tick", op[1], 0.1]] + ops[i + 1:])

    def sample(self, plan: dict) -> Any:
        return {"profile": plan.get("profile"), "cfg": plan.get("cfg"), "method": [ln for _, ln in plan["method"]],
                "ops": [" ".join(str(x) for x in op) for op in plan["ops"]]}

    # ------------------------------------------------------------------ execution
    def execute(self, plan: dict, tape: Tape) -> RunResult:
        res = RunResult()
        rec = Recorder()
        cfg = plan.get("cfg", {})
        fs = None
        if cfg.get("archiver"):
            from .memfs import MemFS
            fs = MemFS()
        world = EngineWorld(res, rec, recovery=cfg.get("recovery", False), archiver=bool(cfg.get("archiver")),
                            data_log_interval=cfg.get("data_log_interval", 5.0), fs=fs,
                            extra_tags=cfg.get("extra_tags"), extra_cmds=cfg.get("extra_cmds"),
                            totalizer=cfg.get("totalizer", "both"))
        world.fs = fs
        self.last_world = world          # tools/trace.py
        try:
            self._run(world, plan, res, tape)
        finally:
            world.close()
        res.digest = rec.digest()
        return res

    def _run(self, w: EngineWorld, plan: dict, res: RunResult, tape: Tape) -> None:
        w.plan = plan
        oracles = _oracles_for(w, plan, res)
        w.observers.extend(oracles)
        by_name = {type(o).__name__: o for o in oracles}
        for o in oracles:
            f = getattr(o, "at_start", None)
            if f:
                f()
        text_lines = [(i, c) for i, c in plan["method"]]
        w.set_method_text("", lines=text_lines)
        fp: list[str] = []
        vol_rate = 0.0
        for op in plan["ops"]:
            k = op[0]
            if k == "tick":
                n, dt = op[1], op[2]
                for _ in range(n):
                    if vol_rate:
                        w.hw.inputs["VOL"] = round(w.hw.inputs["VOL"] + vol_rate * dt / 0.1, 6)
                    w.tick(dt)
                    res.state(w.state, w.tag("Method Status"), bool(w.tag("Block")), len(w.uod.command_instances),
                              len(w.engine.interpreter.interrupts))
                fp.append(f"t{min(n, 9)}{'j' if dt != 0.1 else ''}")
            elif k == "user":
                w.user_command(op[1])
                fp.append("u" + op[1][:3])
            elif k == "pv":
                w.hw.inputs[op[1]] = op[2]
                fp.append("pv")
            elif k == "volrate":
                vol_rate = op[1]
            elif k == "inject":
                w.inject(op[1])
                fp.append("inj")
            elif k == "report":
                by_name["C36Reports"].report(snapshot=len(op) > 1 and op[1] == "snapshot")
                fp.append("rep")
            elif k == "report_midtick":
                # a tick lands while the reporter is in the middle of draining the update queue: the HOOK tag and a process
                # value have changed (both are queued), the value changes again in the tick that lands in the drain
                name, v1, v2 = op[1], op[2], op[3]
                w.hw.inputs[name] = v1
                w.engine.tags["HOOK"].set_value(w.tick_no + 1, w.clock.read())
                w.tick(0.1)

                def mid():
                    w.hw.inputs[name] = v2
                    w.tick(0.1)
                by_name["C36Reports"].report(mid_tick=mid)
                fp.append("repmid")
            elif k == "hwfault":
                if op[1] == "read":
                    w.hw.fail_reads += op[2]
                else:
                    w.hw.fail_writes += op[2]
                fp.append("hwf")
            elif k == "settle":
                # run until the main path has ended and no command is executing (bounded), then a few more ticks
                cap = op[1]
                n = 0
                while n < cap:
                    done = any(e[1] == "method_end" for e in w.events) and not w.uod.command_instances \
                        and w.state == "Running"
                    if done:
                        break
                    if w.state in ("Stopped",) and n > 3:
                        break
                    w.tick(0.1)
                    n += 1
                for _ in range(4):
                    w.tick(0.1)
                w.method_end_reached = any(e[1] == "method_end" for e in w.events)
                w.quiescent = w.method_end_reached and not w.uod.command_instances
                fp.append("settle")
            elif k == "end_stop":
                from .oracles_exec import live_records
                w.final_records = live_records(w)
                w.final_method_state = w.method_state()
                sent_stop = False
                if w.state not in ("Stopped", "Restarting"):
                    sent_stop = w.user_command("Stop")
                for _ in range(4):
                    w.tick(0.1)
                # (a command a user started while no run was active is not ended by a Stop that was never needed)
                w.ended_with_stop = w.state == "Stopped" and (sent_stop or not w.uod.command_instances)
                fp.append("endstop")
            else:
                from . import ops_ext
                ops_ext.execute(w, op, by_name, res, tape, fp)
        w.finish()
        for kf, n in w.hw.fired.items():
            if n:
                res.fault(kf, n)
        res.fingerprint = stable_hash([fp, [c.strip().split(":")[0] for _, c in plan["method"]]])
        res.nontrivial = w.tick_no >= 5 and any(e[1] == "start" for e in w.events)
