"""Seeded P-code method generator (swarm style: each run enables a random subset of constructs)."""
from __future__ import annotations

import random

ALL_FEATURES = ["block", "endblocks", "watch", "alarm", "macro", "wait", "threshold", "base", "uod_short", "uod_long",
                "pause", "hold", "simulate", "info", "ws", "counter", "nested_interrupt_block"]


class MethodGen:
    def __init__(self, rng: random.Random, features: set[str], max_lines: int = 25, max_depth: int = 3,
                 time_scale: float = 1.0):
        self.rng = rng
        self.f = features
        self.max_lines = max_lines
        self.max_depth = max_depth
        self.n = 0
        self.lines: list[str] = []
        self.macros: list[str] = []
        self.base = "min"
        self.ts = time_scale
        self.uniq = 0

    def u(self) -> int:
        self.uniq += 1
        return self.uniq

    def emit(self, depth: int, text: str) -> None:
        self.lines.append("    " * depth + text)

    def thr(self) -> str:
        if "threshold" not in self.f or self.rng.random() > 0.3:
            return ""
        secs = self.rng.choice([0.2, 0.5, 1.0, 1.5, 2.0, 3.0]) * self.ts
        if self.base == "s":
            return f"{secs:g} "
        if self.base == "min":
            return f"{secs / 60:.4f} "
        if self.base == "h":
            return f"{secs / 3600:.6f} "
        if self.base == "L":
            return f"{self.rng.choice([0.5, 1.0, 2.0]):g} "
        if self.base == "CV":
            return f"{self.rng.choice([0.25, 0.5, 1.0]):g} "
        return ""

    def cond(self) -> str:
        r = self.rng.random()
        if r < 0.45:
            return f"PV1 {self.rng.choice(['>', '>=', '>'])} {self.rng.choice([1, 2, 3, 5])} L/h"
        if r < 0.6:
            return f"PV2 {self.rng.choice(['<', '>'])} {self.rng.choice([10, 25, 30])} degC"
        if r < 0.7:
            return f"LVL {self.rng.choice(['>=', '<='])} {self.rng.choice([20, 50, 80])} %"
        if r < 0.85:
            return f"Run Time > {self.rng.choice([0.5, 1, 2, 3]) * self.ts:g} s"
        if r < 0.95:
            return f"Block Time > {self.rng.choice([0.3, 1, 2]) * self.ts:g} s"
        return f"Run Counter {self.rng.choice(['=', '>='])} {self.rng.choice([0, 1, 2])}"

    def simple(self, depth: int, in_interrupt: bool, in_macro: bool) -> None:
        r = self.rng
        opts = [("mark", 5)]
        if "uod_short" in self.f:
            opts += [("set1", 2), ("set3", 1), ("valve", 1)]
        if "uod_long" in self.f:
            opts += [("ramp", 2), ("longa", 1), ("longb", 1), ("longc", 1), ("spin", 1), ("slow", 1)]
        if "wait" in self.f:
            opts += [("wait", 2)]
        if "base" in self.f and depth == 0 and not in_interrupt:
            opts += [("base", 1)]
        if "pause" in self.f:
            opts += [("pause", 1)]
        if "hold" in self.f:
            opts += [("hold", 1)]
        if "simulate" in self.f:
            opts += [("simulate", 1), ("simoff", 1)]
        if "info" in self.f:
            opts += [("info", 1)]
        if "counter" in self.f:
            opts += [("counter", 1)]
        if "ws" in self.f:
            opts += [("blank", 1), ("comment", 1)]
        if self.macros and "macro" in self.f and not in_macro:
            opts += [("call", 2)]
        k = r.choices([o for o, _ in opts], [w for _, w in opts])[0]
        t = self.thr()
        if k == "mark":
            self.emit(depth, f"{t}Mark: m{self.u()}")
        elif k == "set1":
            self.emit(depth, f"{t}Set1: {self.u()} %")
        elif k == "set3":
            self.emit(depth, f"{t}Set3: {self.u()}")
        elif k == "valve":
            self.emit(depth, f"{t}Valve: {r.choice(['Open', 'Closed'])}")
        elif k == "ramp":
            self.emit(depth, f"{t}Ramp: {r.choice([2, 3, 5, 8])}")
        elif k == "longa":
            self.emit(depth, f"{t}LongA: {r.choice([2, 4, 9])}")
        elif k == "longb":
            self.emit(depth, f"{t}LongB: {r.choice([2, 4, 9])}")
        elif k == "longc":
            self.emit(depth, f"{t}LongC: {r.choice([2, 4, 9])}")
        elif k == "spin":
            self.emit(depth, f"{t}Spin")
        elif k == "slow":
            self.emit(depth, f"{t}{r.choice(['SlowOpen', 'SlowFull'])}")
        elif k == "wait":
            self.emit(depth, f"{t}Wait: {r.choice([0.2, 0.5, 1, 1.5, 2]) * self.ts:g}s")
        elif k == "base":
            self.base = r.choice(["s", "s", "min", "h", "L", "CV"])
            self.emit(depth, f"Base: {self.base}")
        elif k == "pause":
            self.emit(depth, f"{t}Pause: {r.choice([0.3, 0.5, 1]) * self.ts:g}s")
        elif k == "hold":
            self.emit(depth, f"{t}Hold: {r.choice([0.3, 0.5, 1]) * self.ts:g}s")
        elif k == "simulate":
            # mostly an input; sometimes an OUTPUT that has a safe value (the simulated value masks what is written)
            self.emit(depth, r.choice([f"{t}Simulate: PV1 = {r.choice([0, 4, 9])} L/h"] * 2 +
                                      [f"{t}Simulate: OUT1 = {r.choice([33, 77])} %", f"{t}Simulate: OUT2 = Open"]))
        elif k == "simoff":
            self.emit(depth, f"{t}Simulate off: {r.choice(['PV1', 'PV1', 'OUT1', 'OUT2'])}")
        elif k == "info":
            self.emit(depth, f"{t}{r.choice(['Info', 'Warning', 'Notify', 'Batch'])}: text {self.u()}")
        elif k == "counter":
            self.emit(depth, r.choice(["Increment run counter", f"Run counter: {r.choice([0, 1, 2, 3])}"]))
        elif k == "blank":
            self.emit(0, "")
        elif k == "comment":
            self.emit(depth, f"# comment {self.u()}")
        elif k == "call":
            self.emit(depth, f"{t}Call macro: {r.choice(self.macros)}")

    def body(self, depth: int, budget: int, in_block: bool, in_interrupt: bool, in_macro: bool) -> None:
        r = self.rng
        n = r.randint(1, max(1, budget))
        i = 0
        if depth > 0:
            # a body always starts with a real instruction (a body opened by whitespace only is re-nested by the parser)
            self.emit(depth, f"Mark: m{self.u()}")
            i = 1
        while i < n and len(self.lines) < self.max_lines:
            i += 1
            can_nest = depth < self.max_depth and len(self.lines) < self.max_lines - 2
            x = r.random()
            if can_nest and "block" in self.f and x < 0.14 and not in_macro and \
                    (not in_interrupt or "nested_interrupt_block" in self.f):
                self.emit(depth, f"{self.thr()}Block: b{self.u()}")
                self.body(depth + 1, max(1, budget // 2), True, in_interrupt, in_macro)
                e = r.random()
                if e < 0.8:
                    self.emit(depth + 1, f"{self.thr()}End block")
                elif e < 0.9 and "endblocks" in self.f:
                    self.emit(depth + 1, "End blocks")
                # else: unterminated block (legal: waits for End block from elsewhere)
            elif can_nest and "watch" in self.f and x < 0.26 and not in_macro:
                self.emit(depth, f"Watch: {self.cond()}")
                self.body(depth + 1, max(1, budget // 3), in_block, True, in_macro)
                if in_block and r.random() < 0.3:
                    self.emit(depth + 1, "End block")
            elif can_nest and "alarm" in self.f and x < 0.33 and not in_macro and not in_interrupt:
                self.emit(depth, f"Alarm: {self.cond()}")
                self.body(depth + 1, max(1, budget // 3), in_block, True, in_macro)
            elif can_nest and "macro" in self.f and x < 0.42 and depth == 0 and not in_interrupt:
                name = f"M{self.u()}" if not self.macros or r.random() < 0.7 else r.choice(self.macros)
                self.emit(depth, f"Macro: {name}")
                self.body(depth + 1, max(1, budget // 3), False, False, True)
                if name not in self.macros:
                    self.macros.append(name)
            else:
                self.simple(depth, in_interrupt, in_macro)

    def method(self) -> list[str]:
        if "base" in self.f and self.rng.random() < 0.6:
            self.base = "s"
            self.emit(0, "Base: s")
        self.body(0, self.max_lines, False, False, False)
        return self.lines


def pick_features(rng: random.Random, always: list[str] = (), never: list[str] = (), p: float = 0.55) -> set[str]:
    f = {x for x in ALL_FEATURES if rng.random() < p}
    f |= set(always)
    f -= set(never)
    return f


def gen_method(rng: random.Random, features: set[str], max_lines: int = 25, max_depth: int = 3,
               time_scale: float = 1.0) -> list[list[str]]:
    g = MethodGen(rng, features, max_lines, max_depth, time_scale)
    lines = g.method()
    return [[f"L{i:03d}", ln] for i, ln in enumerate(lines)]


def gen_snippet(rng: random.Random, uniq_base: int) -> str:
    """Injected code: 1-3 lines of Mark / probe commands / Wait / a small block."""
    u = [uniq_base]

    def nu():
        u[0] += 1
        return u[0]
    k = rng.random()
    if k < 0.3:
        return f"Mark: i{nu()}"
    if k < 0.5:
        return f"Set1: {nu()} %"
    if k < 0.6:
        return f"Ramp: {rng.choice([2, 4])}\nMark: i{nu()}"
    if k < 0.7:
        # a command that outlives the snippet that started it
        return rng.choice([f"LongC: {rng.choice([3, 6])}", "LongA: 9", "Churn", "Spin", f"Mark: i{nu()}\nLongC: 6"])
    if k < 0.8:
        return f"Wait: 0.3s\nMark: i{nu()}"
    if k < 0.9:
        return f"Mark: i{nu()}\nMark: i{nu()}\nSet3: {nu()}"
    return f"Block: ib{nu()}\n    Mark: i{nu()}\n    End block\nMark: i{nu()}"


PV_VALUES = {"PV1": [0.0, 1.0, 2.5, 4.0, 6.0, 10.0], "PV2": [5.0, 20.0, 27.0, 35.0], "LVL": [10.0, 50.0, 90.0]}


def gen_scenario(rng: random.Random) -> list[list[str]]:
    """Hand-shaped method skeletons with drawn parameters for interactions the free generator reaches rarely:
    a scope (block, macro invocation, alarm body) that is abandoned or re-entered while something in it is under way."""
    u = [100]

    def m():
        u[0] += 1
        return f"Mark: s{u[0]}"
    w1 = rng.choice([0.2, 0.3, 0.5, 0.8])
    w2 = rng.choice([0.2, 0.4, 1.0])
    k = rng.randrange(24)
    if k in (22, 23):
        # a Watch registered from an interrupt body while a block it does not belong to is the innermost active block;
        # that block then ends by its own End block while the Watch is still pending, and the Watch's condition comes
        # true later (End block ends exactly its own block and its own pending interrupts)
        t1 = rng.choice([0.3, 0.5, 0.8])
        t2 = rng.choice([2.5, 3.0, 4.0])
        wb = rng.choice([0.8, 1.0, 1.5])
        if k == 22:
            lines = ["Base: s", f"Watch: Run Time > {t1:g} s", "    " + m(), f"    Watch: Run Time > {t2:g} s", "        " + m(),
                     "Block: obA", "    " + m(), f"    Wait: {wb:g}s", "    End block", m(), f"Wait: {t2 + 1:g}s", m()]
        else:
            lines = ["Base: s", "Block: obA", "    " + m(), f"    Watch: Block Time > {t1:g} s", "        " + m(),
                     f"        Watch: Run Time > {t2 + 1:g} s", "            " + m(), "            End block",
                     "    Block: obB", "        " + m(), f"        Wait: {wb:g}s", "        End block", "    " + m(),
                     f"    Wait: {t2 + 3:g}s", "    " + m(), m()]
    elif k in (20, 21):
        # a chain of macros (A calls B [calls C]); the last one is redefined between two calls of the first
        names = ["NA", "NB", "NC"][:rng.choice([2, 3])]
        lines = []
        for i, nm in reversed(list(enumerate(names))) if rng.random() < 0.5 else list(enumerate(names)):
            lines += [f"Macro: {nm}", "    " + m()]
            if i + 1 < len(names):
                lines += [f"    Call macro: {names[i + 1]}"]
            lines += ["    " + m()]
        lines += [f"Call macro: {names[0]}", m(), f"Macro: {names[-1]}", "    " + m(), f"Call macro: {names[0]}", m()]
        if k == 21:      # ... and a thresholded line in the macro with a change of Base between the calls
            b1, b2, thr = rng.choice([("s", "min", 0.02), ("min", "s", 0.01), ("s", "min", 0.01), ("min", "s", 0.02)])
            head = [f"Macro: {names[0]}x", f"    {thr} " + m(), "    " + m()]
            if rng.random() < 0.25:      # the macro defined inside the first block (and called again after that block)
                lines = [f"Base: {b1}", "Block: nb1"] + ["    " + x for x in head] + [f"    Call macro: {names[0]}x", "    End block"]
            else:
                lines = [f"Base: {b1}"] + head + ["Block: nb1", f"    Call macro: {names[0]}x", "    End block"]
            lines += [f"Base: {b2}", "Block: nb2", f"    Call macro: {names[0]}x", "    " + m(), "    End block", m()]
    elif k in (18, 19):
        # a block ended from a Watch while an Alarm (or a second Watch) of the same block is about to enter its body or is
        # between two body lines; the other condition goes on holding after the block has ended
        t1 = rng.choice([0.8, 1.0, 1.3])
        d = rng.choice([-0.3, -0.2, -0.1, 0.0, 0.1, 0.2, 0.3, 0.4])
        other = rng.choice(["Alarm", "Alarm", "Watch"])
        first = [f"    Watch: Run Time > {t1:g} s", "        End block"]
        second = [f"    {other}: Run Time > {t1 + d:g} s", "        " + m(), "        " + m()]
        body = first + second if rng.random() < 0.7 else second + first
        lines = ["Base: s", "Block: sbE"] + body + ["    " + m(), "    Wait: 6s", "    " + m(), m(), "Wait: 2.5s", m()]
    elif k in (16, 17):
        # a chain of macros called once, then a redefinition at the end of the chain closes a cycle, then called again
        names = ["RA", "RB", "RC", "RD"][:rng.choice([2, 3, 3, 4])]
        lines = []
        for i, nm in enumerate(names):
            lines += [f"Macro: {nm}", "    " + m()]
            if i + 1 < len(names):
                lines += [f"    Call macro: {names[i + 1]}"]
            if rng.random() < 0.4:
                lines += ["    " + m()]
        first = names[0] if k == 16 else rng.choice(names[:-1])
        lines += [f"Call macro: {first}", m(), f"Macro: {names[-1]}", "    " + m(), f"    Call macro: {rng.choice(names[:-1])}",
                  f"Call macro: {first}", m()]
    elif k in (13, 14, 15):
        # a multi-tick command in a body that runs again while (or just when) the previous invocation's command ends
        cmd = rng.choice(["LongA", "LongB", "LongC", "Ramp"])
        n = rng.randint(2, 12)
        if k == 13 and rng.random() < 0.5:
            # two commands in the body that replace each other (same name or an overlap group), the later one still running
            # when the next call starts the earlier one
            c1, c2 = rng.choice([("LongA", "LongB"), ("LongB", "LongC"), ("LongB", "LongA"), ("Ramp", "Ramp"), ("LongC", "LongC")])
            n1, n2 = rng.sample(range(5, 16), 2)
            lines = ["Macro: MR", "    " + m(), f"    {c1}: {n1}", "    " + m(), f"    {c2}: {n2}", "    " + m()] + \
                ["Call macro: MR"] * rng.randint(2, 3) + [m()]
        elif k == 13:      # macro called back to back
            lines = ["Macro: MR", "    " + m(), f"    {cmd}: {n}", "    " + m()] + ["Call macro: MR"] * rng.randint(2, 3) + [m()]
        elif k == 14:    # always-true alarm
            lines = ["Base: s", f"Alarm: {rng.choice(['Run Time > 0.2 s', 'LVL >= 50 %', 'PV2 < 30 degC'])}", "    " + m(), f"    {cmd}: {n}",
                     "    " + m(), m(), f"Wait: {rng.choice([4.0, 6.0])}s", m()]
        else:            # macro called from the main path with something between the calls
            lines = ["Macro: MR", "    " + m(), f"    {cmd}: {n}", "    " + m(), "Call macro: MR", m(),
                     f"Wait: {rng.choice([0.2, 0.5, 0.8])}s", "Call macro: MR", m()]
    elif k in (11, 12):   # a block started from a Watch / Alarm inside block A while a sibling block B inside A is active
        intr = "Watch" if k == 11 else rng.choice(["Watch", "Alarm"])
        lines = ["Base: s", "Block: sbA", f"    {intr}: Block Time > {w2} s", "        Block: sbC", "            " + m(),
                 "            End block", "        " + m(), "    " + m(), "    Block: sbB", "        " + m(),
                 f"        Wait: {w1 + w2 + 0.4}s", "        " + m(), "        End block", "    " + m(), "    End block", m()]
    elif k == 9:      # a block started from a Watch (or Alarm) inside a block that stays active
        intr = rng.choice(["Watch", "Watch", "Alarm"])
        lines = ["Base: s", "Block: sbA", f"    {intr}: Block Time > {w2} s", "        Block: sbW", "            " + m(),
                 "            End block", "        " + m(), "    " + m(), f"    Wait: {w1 + w2 + 0.6}s", "    " + m(), "    End block", m()]
    elif k == 10:   # three nested blocks, the innermost ended by its own End block with siblings following
        lines = ["Block: sb1", "    " + m(), "    Block: sb2", "        Block: sb3", "            " + m(), "            End block",
                 "        " + m(), "        End block", "    " + m(), "    End block", m()]
    elif k == 5:      # direct recursion
        lines = ["Macro: RA", "    " + m(), "    Call macro: RA", "    " + m(), m(), "Call macro: RA", m()]
    elif k == 6:    # mutual recursion
        lines = ["Macro: RA", "    " + m(), "    Call macro: RB", "Macro: RB", "    " + m(), "    Call macro: RA", "Call macro: RA", m()]
    elif k == 7:    # the recursive call is not the first call in the body
        lines = ["Macro: RB", "    " + m(), "Macro: RA", "    " + m(), "    Call macro: RB", "    Call macro: RA", m(), "Call macro: RA", m()]
    elif k == 8:    # the recursive call is nested in a block inside the macro body
        lines = ["Macro: RA", "    " + m(), "    Block: rb1", "        Call macro: RA", "        End block", m(), "Call macro: RA", m()]
    elif k == 0:      # macro invocation abandoned by a Watch ending its block, macro called again
        body = [m(), f"Wait: {w1}s", m(), m()] if rng.random() < 0.7 else [m(), m(), f"Wait: {w1}s", m()]
        lines = ["Base: s", "Macro: MA"] + ["    " + b for b in body] + [
            "Block: sb1", f"    Watch: Block Time > {w2} s", "        End block", "    Call macro: MA", m(), "Call macro: MA", m()]
    elif k == 1:    # nested blocks, the outer one ended from a Watch while the inner one is active
        lines = ["Base: s", "Block: sb1", f"    Watch: Block Time > {w2} s", "        " + m(),
                 "        " + rng.choice(["End blocks", "End block", "End block"]),
                 "    Block: sb2", "        " + m(), f"        Wait: {w1}s", "        " + m(), "        End block", "    " + m(),
                 "    End block", m()]
    elif k == 2:    # alarm whose body is still busy when the condition holds again
        lines = ["Base: s", f"Alarm: Run Time > {w2} s", "    " + m(), f"    Wait: {w1}s", "    " + m(), m(), f"Wait: {w1 + 1.0}s", m()]
    elif k == 3:    # macro redefinition between two calls
        lines = ["Macro: MB", "    " + m(), "    " + m(), "Call macro: MB", "Macro: MB", "    " + m(), "Call macro: MB", m(),
                 "Call macro: MB"]
    else:           # thresholds inside a block after a wait, block ended by its own End block with threshold
        lines = ["Base: s", "Block: sb3", "    " + m(), f"    {w1:g} " + m(), f"    Wait: {w2}s", f"    {w1 + w2 + 0.3:g} End block", m()]
    return [[f"L{i:03d}", ln] for i, ln in enumerate(lines)]
