"""EngineWorld: one real Engine under a simulated clock, tick schedule, hardware and request stream."""
from __future__ import annotations

import uuid as _real_uuid
from typing import Any, Callable

from simcore.clock import SimClock, TimeProxy, make_datetime_proxy, patched, T0
from simcore.core import HarnessError, Recorder, RunResult

import openpectus.engine.engine as m_engine
import openpectus.engine.internal_commands_impl as m_ici
import openpectus.engine.method_manager as m_mm
import openpectus.engine.engine_message_builder as m_emb
import openpectus.engine.archiver as m_arch
import openpectus.engine.hardware_recovery as m_hr
import openpectus.lang.exec.tags as m_tags
import openpectus.lang.exec.tags_impl as m_tags_impl
import openpectus.lang.exec.events as m_events
import openpectus.lang.exec.uod as m_uod
import openpectus.lang.exec.units as m_units
import openpectus.lang.exec.timer as m_timer
import openpectus.lang.exec.pinterpreter as m_pint
import openpectus.lang.exec.runlog as m_runlog
import openpectus.lang.exec.readings as m_readings
import openpectus.lang.exec.tracking as m_tracking
import openpectus.protocol.aggregator_messages as AM
import openpectus.protocol.models as Mdl
from openpectus.engine.engine import Engine, EngineTiming
from openpectus.engine.engine_message_builder import EngineMessageBuilder
from openpectus.engine.engine_message_handlers import EngineMessageHandlers
from openpectus.engine.hardware_recovery import ErrorRecoveryConfig, ErrorRecoveryDecorator
from openpectus.lang.exec.clock import Clock
from openpectus.lang.exec.events import EventListener
from openpectus.lang.exec.tags import SystemTagName
from openpectus.lang.exec.timer import NullTimer

from .uod import OUTPUTS, ProbeLog, SimHardware, build_probe_uod

TIME_MODULES = [m_ici, m_emb, m_arch, m_hr, m_tags, m_tags_impl, m_events, m_uod, m_units, m_timer]
UUID_MODULES = [m_engine, m_pint, m_runlog, m_readings, m_tracking]


class UuidProxy:
    def __init__(self) -> None:
        self.n = 0
        self.UUID = _real_uuid.UUID

    def uuid4(self):
        self.n += 1
        return _real_uuid.UUID(int=self.n)


class _SimClockObj(Clock):
    def __init__(self, clock: SimClock):
        self._c = clock

    def get_time(self) -> float:
        return self._c.read()


class _RpcCollector:
    def __init__(self) -> None:
        self.handlers: dict[type, Callable] = {}

    def set_rpc_handler(self, message_type, handler):
        self.handlers[message_type] = handler


def run_coro_sync(coro):
    """The engine's request handlers are coroutines that never await: drive them to completion."""
    try:
        coro.send(None)
    except StopIteration as si:
        return si.value
    raise HarnessError("engine request handler awaited something; the synchronous driver cannot run it")


class Probe(EventListener):
    """Engine life-time events as seen by any listener on the real emitter."""

    def __init__(self, world: "EngineWorld") -> None:
        super().__init__()
        self.w = world

    def _ev(self, *a):
        self.w.events.append((self.w.tick_no,) + a)
        self.w.rec.log("ev", self.w.tick_no, *a)

    def on_start(self, run_id):
        self._ev("start", run_id)

    def on_stop(self):
        self._ev("stop")
        for fn in self.w.on_stop_hooks:
            fn()
        super().on_stop()

    def on_block_start(self, bi):
        self._ev("block_start", bi.name)

    def on_block_end(self, bi, nbi):
        self._ev("block_end", bi.name, nbi.name if nbi else "")

    def on_scope_start(self, si):
        self._ev("scope_start", si.node_id, si.scope_type)

    def on_scope_activate(self, si):
        self._ev("scope_activate", si.node_id, si.scope_type)

    def on_scope_end(self, si):
        self._ev("scope_end", si.node_id, si.scope_type)

    def on_method_end(self):
        self._ev("method_end")

    def on_method_error(self, ex):
        self._ev("method_error", type(ex).__name__)
        self.w.ctx_flags.add("err")

    def on_runstate_change(self, sc):
        self._ev("runstate", str(sc))

    def on_notify_command(self, arg):
        self._ev("notify", arg)

    def on_method_edited(self, live):
        self._ev("method_edited", live)


class MarkListener:
    """ChangeListener attached to the Mark tag: every executed Mark changes the (appending) tag."""

    def __init__(self, world: "EngineWorld") -> None:
        self.w = world

    def notify_change(self, elm: str):
        tag = self.w.engine.tags["Mark"]
        v = tag.get_value()
        if v in (None, ""):
            return      # reset by the archiver
        last = str(v).split("; ")[-1]
        self.w.effect("mark", last)


class OutputListener:
    """ChangeListener on the output tags: every value an output tag takes, with the tick it happened in."""

    def __init__(self, world: "EngineWorld") -> None:
        self.w = world

    def notify_change(self, elm: str):
        self.w.output_changes.append((self.w.tick_no, elm, self.w.engine.tags[elm].get_value()))


class EngineWorld:
    """Builds and drives one engine. All observation goes through public surfaces of the engine:
    tags, emitter events, message builder, request handlers, the hardware layer and the probe commands."""

    def __init__(self, res: RunResult, rec: Recorder, *, recovery: bool = False, archiver: bool = False,
                 data_log_interval: float = 5.0, fs=None, extra_tags: list | None = None,
                 extra_cmds: list | None = None, totalizer: str = "both") -> None:
        self.res = res
        self.rec = rec
        self.clock = SimClock()
        self.tp = TimeProxy(self.clock)
        self.uuidp = UuidProxy()
        self.dtp = make_datetime_proxy(self.clock)
        triples = [(m, "time", self.tp) for m in TIME_MODULES] + [(m, "uuid", self.uuidp) for m in UUID_MODULES]
        triples += [(m_mm, "datetime", self.dtp), (m_arch, "datetime", self.dtp)]
        if fs is not None:
            triples += fs.patches(m_arch)
        self._patch = patched(*triples)
        self._patch.__enter__()
        self.closed = False
        self.extra_tags = extra_tags
        self.extra_cmds = extra_cmds
        self.totalizer = totalizer
        self._fs = fs
        try:
            self._build(recovery, archiver, data_log_interval)
        except BaseException:
            self.close()
            raise

    # ------------------------------------------------------------------ construction
    def _build(self, recovery: bool, archiver: bool, data_log_interval: float) -> None:
        self.tick_no = -1
        self.t = T0                      # time of the next tick
        self.tick_times: list[float] = []
        self.events: list[tuple] = []    # emitter events
        self.effects: list[tuple] = []   # (tick, kind, token, extra)
        self.requests: list[tuple] = []  # (tick, kind, arg, accepted, reply)
        self.exceptions: list[tuple] = []
        self.on_stop_hooks: list[Callable[[], None]] = []
        self.observers: list[Any] = []
        self.ctx_flags: set[str] = set()     # perturbations seen in this engine lifetime: err, cf, edit
        self.ever_started: set[str] = set()
        self.hw = SimHardware()
        self.plog = ProbeLog()
        self.plog.on_event = self._probe_event
        self.uod = build_probe_uod(self.hw, self.plog, self.clock.read, data_log_interval,
                                   extra_tags=self.extra_tags, extra_cmds=self.extra_cmds, totalizer=self.totalizer)
        while not m_emb.frontend_logging_queue.empty():
            m_emb.frontend_logging_queue.get_nowait()
        timing = EngineTiming(_SimClockObj(self.clock), NullTimer(), 0.1, 1.0)
        self.engine = Engine(self.uod, timing, enable_archiver=archiver)
        self.uod.validate_configuration()
        self.uod.build_commands()
        if getattr(self, "_fs", None) is not None:
            # C39: record what every tag's archive() returns (the "archived values" of the statement)
            fs = self._fs

            def spy(tag, orig):
                def archive():
                    v = orig()
                    fs.archived_now.append((tag.name, v))
                    return v
                return archive
            for tag in self.engine.tags:
                tag.archive = spy(tag, tag.archive)
        self.recovery = None
        if recovery:
            conf = ErrorRecoveryConfig()
            self.recovery = ErrorRecoveryDecorator(
                self.uod.hwl, conf, self.engine._system_tags[SystemTagName.CONNECTION_STATUS])
            self.uod.hwl = self.recovery
        self.builder = EngineMessageBuilder(self.engine, secret="", ignore_version_error=True)
        rpc = _RpcCollector()
        self.handlers_obj = EngineMessageHandlers(self.engine, rpc)
        self.handlers = rpc.handlers
        self.probe = Probe(self)
        self.engine.emitter.add_listener(self.probe)
        self.engine.tags["Mark"].add_listener(MarkListener(self))
        self.output_changes: list[tuple[int, str, Any]] = []
        ol = OutputListener(self)
        for n in OUTPUTS:
            self.engine.tags[n].add_listener(ol)
        self.method_lines: list[tuple[str, str]] = []   # (id, content) as last accepted
        self.method_version = 0
        self.engine.run(skip_timer_start=True)
        self.rec.log("engine.run")

    def close(self) -> None:
        if self.closed:
            return
        self.closed = True
        try:
            if hasattr(self, "engine"):
                self.engine.cleanup()
        except Exception:
            pass
        self._patch.__exit__(None, None, None)

    # ------------------------------------------------------------------ observation helpers
    def effect(self, kind: str, token: str, extra: Any = None) -> None:
        e = (self.tick_no, kind, token, extra)
        self.effects.append(e)
        self.rec.log("fx", *e)
        try:        # called from tag listeners inside the engine: see _probe_event
            for o in self.observers:
                f = getattr(o, "on_effect", None)
                if f:
                    f(e)
        except Exception as ex:   # noqa
            import traceback
            self.harness_failure = f"observer failed inside an effect callback: {ex!r}\n{traceback.format_exc()}"

    def _probe_event(self, ev: tuple) -> None:
        # runs inside a UOD command callback, i.e. inside the engine: an exception of the harness raised here would be
        # taken for a command failure and silently change the run - it is recorded and reported as HARNESS-ERROR instead
        try:
            self.rec.log("cmd", *ev)
            if ev[1] == "exec" and ev[4] == 0:
                self.effect("cmd", f"{ev[2]}:{ev[5]}", ev[3])
            for o in self.observers:
                f = getattr(o, "on_probe", None)
                if f:
                    f(ev)
        except Exception as ex:   # noqa
            import traceback
            self.harness_failure = f"observer failed inside a probe callback: {ex!r}\n{traceback.format_exc()}"

    def tag(self, name: str):
        return self.engine.tags[name].get_value()

    @property
    def state(self) -> str:
        return str(self.engine.tags[SystemTagName.SYSTEM_STATE].get_value())

    def control(self) -> tuple[bool, bool, bool]:
        cs = self.builder.create_control_state_msg().control_state
        return (cs.is_running, cs.is_holding, cs.is_paused)

    def snapshot(self) -> dict[str, Any]:
        return {t.name: t.get_value() for t in self.engine._iter_all_tags()}

    def ctx(self) -> str:
        """Suffix for violation kinds: which kinds of perturbation preceded (so that a finding that needs a live edit,
        a cancel/force request or a method error is not confused with one that needs none)."""
        return ("@" + "+".join(sorted(self.ctx_flags))) if self.ctx_flags else ""

    def method_state(self):
        return self.engine.method_manager.get_method_state()

    def runlog(self):
        return self.engine.tracking.get_runlog()

    # ------------------------------------------------------------------ operations
    def set_method_text(self, text: str, lines: list[tuple[str, str]] | None = None) -> Any:
        """Send a method through the real MethodMsg handler. lines: explicit (id, content) pairs."""
        if lines is None:
            lines = [(f"L{i:03d}", ln) for i, ln in enumerate(text.split("\n"))]
        method = Mdl.Method(lines=[Mdl.MethodLine(id=i, content=c) for i, c in lines], version=0)
        reply = self._request("method", AM.MethodMsg(method=method), "edit")
        if isinstance(reply, AM.SuccessMessage):
            self.method_lines = list(lines)
        return reply

    def _request(self, hname: str, msg: Any, kind: str) -> Any:
        h = self.handlers[type(msg)]
        for o in self.observers:
            f = getattr(o, "before_request", None)
            if f:
                f(kind, msg)
        try:
            reply = run_coro_sync(h(msg))
        except HarnessError:
            raise
        except BaseException as ex:     # a request handler must never raise
            self.exceptions.append((self.tick_no, "request:" + kind, repr(ex)))
            self.res.add("C13", "C13.request_handler_raised", kind, self.tick_no, repr(ex))
            reply = None
        accepted = isinstance(reply, AM.SuccessMessage)
        arg = getattr(msg, "name", None) or getattr(msg, "pcode", None) or getattr(msg, "exec_id", None) or ""
        self.requests.append((self.tick_no, kind, arg, accepted))
        if accepted and kind in ("cancel", "force"):
            self.ctx_flags.add("cf")
        if accepted and kind == "edit" and self.state not in ("Stopped", "Restarting"):
            self.ctx_flags.add("edit")
        self.rec.log("req", self.tick_no, kind, arg, accepted)
        for o in self.observers:
            f = getattr(o, "after_request", None)
            if f:
                f(kind, msg, accepted, reply)
        return reply

    def user_command(self, name: str) -> bool:
        reply = self._request("control", AM.ExecuteControlCommandMsg(name=name), "control")
        return isinstance(reply, AM.SuccessMessage)

    def inject(self, pcode: str) -> bool:
        reply = self._request("inject", AM.InjectCodeMsg(pcode=pcode), "inject")
        return isinstance(reply, AM.SuccessMessage)

    def cancel(self, exec_id: str) -> bool:
        reply = self._request("cancel", AM.CancelMsg(exec_id=exec_id), "cancel")
        return isinstance(reply, AM.SuccessMessage)

    def force(self, exec_id: str) -> bool:
        reply = self._request("force", AM.ForceMsg(exec_id=exec_id), "force")
        return isinstance(reply, AM.SuccessMessage)

    def tick(self, dt: float = 0.1) -> None:
        """One scan cycle at simulated time t; dt is the increment since the previous tick."""
        first = self.tick_no < 0
        if not first:
            self.t += dt
        self.tick_no += 1
        self.hw.tick_no = self.tick_no
        self.plog.tick_no = self.tick_no
        self.clock.set(self.t)
        self.tick_times.append(self.t)
        inc = 0.0 if first else dt
        for o in self.observers:
            f = getattr(o, "before_tick", None)
            if f:
                f(self, inc)
        try:
            self.engine.tick(self.t, inc)
        except BaseException as ex:
            if isinstance(ex, (KeyboardInterrupt, SystemExit)) or type(ex).__name__ == "_Timeout":
                raise
            self.exceptions.append((self.tick_no, "tick", repr(ex)))
            self.res.add("C13", "C13.tick_raised", type(ex).__name__, self.tick_no, repr(ex))
        # lines that have started at some time in the current run (a macro body line is reset when the macro is called
        # again; it has started all the same)
        if any(e[0] == self.tick_no and e[1] == "start" for e in self.events[-8:]):
            self.ever_started = set()
        try:
            ms = self.method_state()
            self.ever_started |= set(ms.started_line_ids) | set(ms.executed_line_ids) | set(ms.failed_line_ids)
        except Exception:
            pass
        self.res.sim_seconds += inc
        self.res.steps += 1
        self.rec.log("tick", self.tick_no, inc, self.state, self.tag("Method Status"), self.tag("Run Id"),
                     self.tag("Block"), self.tag("Process Time"), self.tag("Block Time"), self.tag("Scope Time"),
                     [self.hw.mem.get(o) for o in OUTPUTS])
        for o in self.observers:
            f = getattr(o, "after_tick", None)
            if f:
                f(self, inc)

    def finish(self) -> None:
        if getattr(self, "harness_failure", None):
            raise HarnessError(self.harness_failure)
        for o in self.observers:
            f = getattr(o, "at_end", None)
            if f:
                f(self)
