"""Probe UOD for SIM-E, built with the repo's real UodBuilder on a simulated hardware layer."""
from __future__ import annotations

from typing import Any, Callable

from openpectus.engine.hardware import HardwareLayerBase, HardwareLayerException, Register, RegisterDirection
from openpectus.lang.exec.regex import RegexCategorical, RegexNumber
from openpectus.lang.exec.tags import Tag, TagDirection
from openpectus.lang.exec.tags_impl import ReadingTag, SelectTag
from openpectus.lang.exec.uod import UodBuilder, UodCommand, UnitOperationDefinitionBase

INPUTS = {"PV1": 0.0, "PV2": 20.0, "LVL": 50.0, "VOL": 0.0}
GARBAGE = {"OUT1": 99.0, "OUT2": 1, "OUT3": 77.0}      # what the device holds before the engine ever wrote
SAFE = {"OUT1": 0.0, "OUT2": "Closed"}                  # tag-level safe values (OUT3 has none)
SAFE_HW = {"OUT1": 0.0, "OUT2": 0}                      # the same after from_tag conversion
OUTPUTS = ["OUT1", "OUT2", "OUT3"]
UOD_COMMANDS = ["Set1", "Set3", "Ramp", "LongA", "LongB", "LongC", "Valve", "Boom", "BoomInit", "BadArgs", "Spin", "Churn", "OpenValve", "Full", "SlowOpen", "SlowFull"]


class NotArchivedTag(Tag):
    """A UOD-defined tag that opts out of the local archive, the documented way: archive() returns None."""

    def archive(self):
        return None


class SimHardware(HardwareLayerBase):
    """Register memory, write log and fault plan. The only hardware the simulated engine sees."""

    def __init__(self) -> None:
        super().__init__()
        self.inputs: dict[str, Any] = dict(INPUTS)
        self.mem: dict[str, Any] = dict(GARBAGE)
        self.write_log: list[tuple[int, str, Any]] = []   # (tick number, register, value)
        self.batch_log: list[tuple[int, dict]] = []
        self.tick_no = -1
        self.fail_reads = 0       # number of upcoming read_batch calls that fail
        self.fail_writes = 0
        self.fired = {"hw_read_fail": 0, "hw_write_fail": 0}
        self.on_hook: Callable[[], None] | None = None    # one-shot callback from inside a tag's format function

    def read(self, r: Register) -> Any:
        return self.inputs[r.name]

    def read_batch(self, registers):
        if self.fail_reads > 0:
            self.fail_reads -= 1
            self.fired["hw_read_fail"] += 1
            raise HardwareLayerException("sim read failure")
        return [self.inputs[r.name] for r in registers]

    def write(self, value: Any, r: Register) -> None:
        self.mem[r.name] = value
        self.write_log.append((self.tick_no, r.name, value))

    def write_batch(self, values, registers):
        if self.fail_writes > 0:
            self.fail_writes -= 1
            self.fired["hw_write_fail"] += 1
            raise HardwareLayerException("sim write failure")
        for v, r in zip(values, registers):
            self.write(v, r)
        self.batch_log.append((self.tick_no, {r.name: v for v, r in zip(values, registers)}))


class ProbeLog:
    """Records init/exec/finalize of every probe command instance."""

    def __init__(self) -> None:
        self.events: list[tuple[int, str, str, int, int, str]] = []   # tick, phase, name, inst, iteration, args
        self.tick_no = -1
        self._inst: dict[int, int] = {}
        self._keep: list[Any] = []      # keep command objects alive so id() stays unique
        self.on_event: Callable[[tuple], None] | None = None

    def inst(self, cmd: UodCommand) -> int:
        k = id(cmd)
        if k not in self._inst:
            self._inst[k] = len(self._inst)
            self._keep.append(cmd)
        return self._inst[k]

    def add(self, phase: str, cmd: UodCommand, args: str = "") -> None:
        ev = (self.tick_no, phase, cmd.name, self.inst(cmd), cmd.get_iteration_count(), args,
              str(getattr(cmd, "instance_id", "")))
        self.events.append(ev)
        if self.on_event is not None:
            self.on_event(ev)


def build_probe_uod(hw: SimHardware, plog: ProbeLog, clock_read: Callable[[], float],
                    data_log_interval: float = 5.0, extra_tags: list | None = None,
                    extra_cmds: list | None = None, totalizer: str = "both") -> UnitOperationDefinitionBase:
    """extra_tags: [[name, unit, value]] plain tags of a UOD variant (C20); extra_cmds: [[name, [units] | None]]
    regex-number commands of the variant (they complete at once and write nothing)."""
    def init_fn(cmd: UodCommand) -> None:
        plog.add("init", cmd)

    def fin_fn(cmd: UodCommand) -> None:
        plog.add("finalize", cmd)

    def set1(cmd: UodCommand, number, number_unit=None) -> None:
        plog.add("exec", cmd, str(number))
        cmd.context.tags["OUT1"].set_value(float(number), clock_read())
        cmd.set_complete()

    def set3(cmd: UodCommand, number) -> None:
        plog.add("exec", cmd, str(number))
        cmd.context.tags["OUT3"].set_value(float(number), clock_read())
        cmd.set_complete()

    def ramp(cmd: UodCommand, number) -> None:
        plog.add("exec", cmd, str(number))
        n = int(number)
        i = cmd.get_iteration_count()
        cmd.context.tags["OUT1"].set_value(10.0 + i, clock_read())
        cmd.set_progress(min(1.0, (i + 1) / max(n, 1)))
        if i + 1 >= n:
            cmd.set_complete()

    def make_long(writes: str | None):
        def long_fn(cmd: UodCommand, number) -> None:
            plog.add("exec", cmd, str(number))
            i = cmd.get_iteration_count()
            if writes is not None:
                cmd.context.tags[writes].set_value(100.0 + i, clock_read())
            if i + 1 >= int(number):
                cmd.set_complete()
        return long_fn

    def valve(cmd: UodCommand, option) -> None:
        plog.add("exec", cmd, str(option))
        cmd.context.tags["OUT2"].set_value(option, clock_read())
        cmd.set_complete()

    def boom(cmd: UodCommand, **kw) -> None:
        plog.add("exec", cmd, "")
        raise RuntimeError("probe command failure")

    def boom_init(cmd: UodCommand) -> None:
        plog.add("init", cmd)
        raise RuntimeError("probe command init failure")

    def noop_exec(cmd: UodCommand, **kw) -> None:
        plog.add("exec", cmd, "")
        cmd.set_complete()

    def churn(cmd: UodCommand, **kw) -> None:
        # like Spin, but long enough to be still running when a run that was started after it is stopped
        plog.add("exec", cmd, "")
        if cmd.get_iteration_count() + 1 >= 14:
            cmd.set_complete()

    def open_valve(cmd: UodCommand, **kw) -> None:
        # command buttons that drive an output with a safe value (no arguments, so a user can press them)
        plog.add("exec", cmd, "")
        cmd.context.tags["OUT2"].set_value("Open", clock_read())
        cmd.set_complete()

    def full(cmd: UodCommand, **kw) -> None:
        plog.add("exec", cmd, "")
        cmd.context.tags["OUT1"].set_value(100.0, clock_read())
        cmd.set_complete()

    def make_slow(out: str, value):
        # a multi-tick command that drives its output only in its third iteration: an output that is at its safe value when
        # a pause begins may leave it during the pause (a command that is already executing goes on executing)
        def slow(cmd: UodCommand, **kw) -> None:
            plog.add("exec", cmd, "")
            i = cmd.get_iteration_count()
            if i == 2:
                cmd.context.tags[out].set_value(value, clock_read())
            if i + 1 >= 6:
                cmd.set_complete()
        return slow

    def hook_format(value) -> str:
        # the reporter formats every tag it collects: the one place where the harness can let a tick land in the middle of
        # a report drain without a second thread
        cb = hw.on_hook
        if cb is not None:
            hw.on_hook = None
            cb()
        return str(value)

    def bad_args_parse(args: str):
        return None

    def spin(cmd: UodCommand, **kw) -> None:
        # a command without arguments that runs for four ticks: what a user starts with a button
        plog.add("exec", cmd, "")
        if cmd.get_iteration_count() + 1 >= 4:
            cmd.set_complete()

    b = (
        UodBuilder()
        .with_instrument("ProbeUod")
        .with_author("verif", "verif@example.invalid")
        .with_filename("probe_uod.py")
        .with_location("simulation")
        .with_hardware(hw)
        .with_data_log_interval_seconds(data_log_interval)
        .with_hardware_register("PV1", RegisterDirection.Read)
        .with_hardware_register("PV2", RegisterDirection.Read)
        .with_hardware_register("LVL", RegisterDirection.Read)
        .with_hardware_register("VOL", RegisterDirection.Read)
        .with_hardware_register("OUT1", RegisterDirection.Write, safe_value=SAFE["OUT1"])
        .with_hardware_register("OUT2", RegisterDirection.Write, safe_value=SAFE["OUT2"],
                                from_tag=lambda x: 1 if x == "Open" else 0,
                                to_tag=lambda x: "Open" if x == 1 else "Closed")
        .with_hardware_register("OUT3", RegisterDirection.Write)
        .with_tag(ReadingTag("PV1", "L/h"))
        .with_tag(ReadingTag("PV2", "degC"))
        .with_tag(ReadingTag("LVL", "%"))
        .with_tag(ReadingTag("VOL", "L"))
        .with_tag(Tag("CV", value=2.0, unit="L"))
        .with_tag(Tag("OUT1", value=0.0, unit="%", direction=TagDirection.Output))
        .with_tag(SelectTag("OUT2", value="Closed", unit=None, choices=["Open", "Closed"], direction=TagDirection.Output))
        .with_tag(Tag("OUT3", value=0.0, unit=None, direction=TagDirection.Output))
        .with_tag(Tag("HOOK", value=0, unit=None, format_fn=hook_format))
    )
    # UOD variants (C20): a UOD need not register a volume totalizer or a column volume; the units `Base` accepts follow
    if totalizer in ("both", "volume"):
        b = b.with_accumulated_volume("VOL")
    if totalizer == "both":
        b = b.with_accumulated_cv("CV", "VOL")
    b = (
        b.with_command_regex_arguments("Set1", RegexNumber(units=["%"]), set1, init_fn, fin_fn)
        .with_command_regex_arguments("Set3", RegexNumber(units=None), set3, init_fn, fin_fn)
        .with_command_regex_arguments("Ramp", RegexNumber(units=None, non_negative=True, int_only=True), ramp, init_fn, fin_fn)
        .with_command_regex_arguments("LongA", RegexNumber(units=None, non_negative=True, int_only=True),
                                      make_long("OUT3"), init_fn, fin_fn)
        .with_command_regex_arguments("LongB", RegexNumber(units=None, non_negative=True, int_only=True),
                                      make_long(None), init_fn, fin_fn)
        .with_command_regex_arguments("LongC", RegexNumber(units=None, non_negative=True, int_only=True),
                                      make_long(None), init_fn, fin_fn)
        .with_command_regex_arguments("Valve", RegexCategorical(exclusive_options=["Open", "Closed"]), valve, init_fn, fin_fn)
        .with_command("Boom", boom, init_fn, fin_fn, arg_parse_fn=None)
        .with_command("BoomInit", noop_exec, boom_init, fin_fn, arg_parse_fn=None)
        .with_command("BadArgs", noop_exec, init_fn, fin_fn, arg_parse_fn=bad_args_parse)
        .with_command("Spin", spin, init_fn, fin_fn, arg_parse_fn=None)
        .with_command("Churn", churn, init_fn, fin_fn, arg_parse_fn=None)
        .with_command("OpenValve", open_valve, init_fn, fin_fn, arg_parse_fn=None)
        .with_command("Full", full, init_fn, fin_fn, arg_parse_fn=None)
        .with_command("SlowOpen", make_slow("OUT2", "Open"), init_fn, fin_fn, arg_parse_fn=None)
        .with_command("SlowFull", make_slow("OUT1", 55.0), init_fn, fin_fn, arg_parse_fn=None)
        .with_command_overlap(["LongA", "LongB"])
        .with_command_overlap(["LongB", "LongC"])       # LongB is declared in two overlap groups
        .with_process_value("PV1")
        .with_process_value("OUT1")
    )
    for name, unit, value in (extra_tags or []):
        if name.startswith("NOARCH"):
            b = b.with_tag(NotArchivedTag(name, value=value, unit=unit))      # opts out of the archive (archive() -> None)
        else:
            b = b.with_tag(Tag(name, value=value, unit=unit))
    for name, units in (extra_cmds or []):
        if isinstance(units, dict):     # a categorical command: {"exclusive": [...], "additive": [...]}
            b = b.with_command_regex_arguments(
                name, RegexCategorical(exclusive_options=units.get("exclusive") or None,
                                       additive_options=units.get("additive") or None), noop_exec, init_fn, fin_fn)
        else:
            b = b.with_command_regex_arguments(name, RegexNumber(units=units), noop_exec, init_fn, fin_fn)
    uod = b.build()
    hw.connect()
    return uod
