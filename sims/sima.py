"""SIM-A: the aggregator under scripted engines and front-end connections (C28-C31, C35, C37, C38).

Real: Aggregator, FromEngine, FromFrontend, AggregatorMessageHandlers, AggregatorDispatcher (subclassed only at the
transport: rpc_call and the connect/disconnect entry points), repositories + ORM models on in-memory SQLite,
aggregator.models (TagsInfo, AggregatedErrorLog, RunData), FrontendPublisher (no subscribers).
Stub: engines (scripted message sources following the engine's protocol), web-push publisher (recording fake),
front-end connections (events delivered to the callbacks the publisher registered).
"""
from __future__ import annotations

import asyncio
import json
import random
from typing import Any, Iterator

from simcore.clock import SimClock, TimeProxy, make_datetime_proxy, patched, T0
from simcore.core import HarnessError, Recorder, RunResult, Tape, stable_hash
from simcore.driver import Simulator
from simcore import vloop

import openpectus.aggregator.aggregator as m_agg
import openpectus.aggregator.models as m_models
import openpectus.aggregator.data.repository as m_repo
import openpectus.aggregator.data.models as DMdl
import openpectus.protocol.aggregator_messages as AM
import openpectus.protocol.engine_messages as EM
import openpectus.protocol.messages as M
import openpectus.protocol.models as PMdl
from openpectus.aggregator.aggregator import Aggregator
from openpectus.aggregator.aggregator_message_handlers import AggregatorMessageHandlers
from openpectus.aggregator.data import database
from openpectus.aggregator.exceptions import AggregatorCallerException
from openpectus.aggregator.frontend_publisher import FrontendPublisher
from openpectus.protocol.aggregator_dispatcher import AggregatorDispatcher
from openpectus.protocol.serialization import serialize, deserialize
from sqlalchemy import select

NAME_ALPHABET = ["a", "b", "c", "_", "%", "/", " ", "a_b", "b_c", "%5F"]
TAGS = ["PV1", "OUT1", "System State", "Run Time", "LateTag"]


class FakeChannel:
    """One websocket of an engine as the dispatcher sees it: `other.get_engine_id_async()` answers with the engine's id,
    `close()` closes it. Every connection is its own object with its own id."""

    def __init__(self, eid, n=0, id_latency=0.001):
        self.id = f"chan-{n}-{eid}"
        self.engine_id = eid
        self.closed = False
        self.accepted = False
        self.default_response_timeout = None
        ch = self

        class _Other:
            async def get_engine_id_async(self):
                from fastapi_websocket_rpc.schemas import RpcResponse
                await asyncio.sleep(id_latency)
                return RpcResponse(result=ch.engine_id, result_type="str", call_id="c")
        self.other = _Other()

    async def close(self):
        self.closed = True


class FakeWebPush:
    def __init__(self):
        self.sent = []
        self.latency = 0.0      # round trip to the push service (a subscriber exists and the service is slow)

    async def publish_message(self, notification, topic, process_unit):
        if self.latency:
            await asyncio.sleep(self.latency)
        self.sent.append((str(topic), process_unit.engine_id))

    async def publish_test_message(self, user_id):
        pass


class SimAggregatorDispatcher(AggregatorDispatcher):
    """Only the transport is replaced: rpc calls go to the scripted engine after a simulated latency."""

    def __init__(self, sim):
        super().__init__()
        self.sim = sim

    async def rpc_call(self, engine_id: str, message: M.MessageBase) -> M.MessageBase:
        if engine_id not in self._engine_id_channel_map:
            return M.ErrorMessage(message=f"Cannot invoke rpc call to unknown engine: {engine_id}")
        wire = json.loads(json.dumps(serialize(message), default=str))
        msg = deserialize(wire)
        lat = self.sim.next_rpc_latency()
        await asyncio.sleep(lat)
        return self.sim.engine_reply(engine_id, msg)


class World:
    def __init__(self, res: RunResult, rec: Recorder, tape: Tape, loop):
        self.res, self.rec, self.tape, self.loop = res, rec, tape, loop
        self.clock = SimClock(micro=True)
        self.engine_time: dict[str, float] = {}
        self.engine_ids: dict[str, str | None] = {}
        self.engine_names: dict[str, tuple[str, str]] = {}
        self.delivered: list[Any] = []
        self.reports: dict[tuple[str, str], list[tuple[float, Any]]] = {}   # (run, tag) -> [(tick_time, value)]
        self.value_counter = 0
        self.rpc_latencies: list[float] = []
        self.rpc_fail = 0
        self.engine_method_version: dict[str, int] = {}
        self.accepted_saves: list[tuple[str, int, int]] = []
        self.engine_method_hist: dict[str, list] = {}      # engine id -> methods the engine has adopted, oldest first
        self.webpush = FakeWebPush()
        self.live_channels: dict[str, FakeChannel] = {}     # harness truth: engine -> its open, accepted websocket
        self.n_channels = 0
        self.new_aggregator()

    def new_aggregator(self):
        self.live_channels = {}          # every socket of the old process is gone
        self.dispatcher = SimAggregatorDispatcher(self)
        self.publisher = FrontendPublisher()
        self.aggregator = Aggregator(self.dispatcher, self.publisher, self.webpush)   # type: ignore
        self.handlers = AggregatorMessageHandlers(self.aggregator)

    def next_rpc_latency(self) -> float:
        if self.rpc_latencies:
            return self.rpc_latencies.pop(0)
        return 0.01

    def engine_reply(self, engine_id: str, msg) -> M.MessageBase:
        if self.rpc_fail > 0:
            self.rpc_fail -= 1
            self.res.fault("engine_rpc_error_reply")
            return M.ErrorMessage(message="engine refused", caller_error=False)
        if isinstance(msg, AM.MethodMsg):
            # the engine adopts the method it is sent; its own reports carry that method from now on
            self.engine_method_hist.setdefault(engine_id, []).append(msg.method)
        return AM.SuccessMessage()

    def now(self) -> float:
        return T0 + self.loop.time()


class SimA(Simulator):
    name = "sima"
    components_real = ["openpectus.aggregator.aggregator.Aggregator / FromEngine / FromFrontend",
                       "AggregatorMessageHandlers", "AggregatorDispatcher (dispatch_message, connect/disconnect handling)",
                       "repositories + ORM models on in-memory SQLite", "aggregator.models (TagsInfo, AggregatedErrorLog, RunData)",
                       "FrontendPublisher (pub/sub endpoint without subscribers)", "protocol.serialization on every hop"]
    components_stub = ["engines: scripted message sources following the engine protocol", "web push sender: recording fake",
                       "front-end websocket connections: events delivered to the registered callbacks",
                       "asyncio loop: virtual time; aggregator time/datetime -> simulated clock"]

    # ------------------------------------------------------------------ generation
    def gen_plan(self, rng: random.Random, profile: str, tier: str) -> dict:
        return getattr(self, "_gen_" + profile)(rng, tier)

    def _gen_runs(self, rng: random.Random, tier: str) -> dict:
        """register / run / tag batches / {disconnect+re-register | graceful | crash restart} / stop, with duplicates,
        resends and reorderings."""
        interval = rng.choice([1.0, 2.0, 5.0])
        ops: list[list] = [["register", "E1"], ["connect", "E1"], ["uodinfo", "E1", interval], ["tags", "E1", None, ["PV1", "OUT1", "System State"], 0.5]]
        faults = rng.random() < 0.8
        n_runs = rng.choice([1, 1, 2, 2, 3])
        delivered = 4

        def idle_reconnect():
            # the engine loses its connection (or the aggregator restarts) while no run is active
            kind = rng.choice(["reconnect", "reconnect", "reconnect", "graceful"])
            if kind == "reconnect":
                ops.extend([["disconnect", "E1"], ["register", "E1"], ["connect", "E1"], ["uodinfo", "E1", interval]])
            else:
                ops.extend([["restart", kind], ["register", "E1"], ["connect", "E1"], ["uodinfo", "E1", interval]])
            if rng.random() < 0.5:
                ops.append(["tags", "E1", None, ["PV1", "OUT1", "System State"], 0.5])

        for k in range(1, n_runs + 1):
            if faults and k > 1 and rng.random() < 0.35:
                idle_reconnect()
            ops.append(["start", "E1", k])
            if faults and rng.random() < 0.25:
                ops.append(["dup", -1])                       # duplicated run-started
            n_batches = rng.randint(2, 12)
            interrupted = False
            for b in range(n_batches):
                names = [n for n in TAGS[:4] if rng.random() < 0.7] or ["PV1"]
                if b > n_batches // 2 and rng.random() < 0.3:
                    names.append("LateTag")
                ops.append(["tags", "E1", k, names, rng.choice([0.3, 0.5, 1.0, 2.5, 6.0])])
                r = rng.random()
                if not faults:
                    continue
                if r < 0.10:
                    ops.append(["dup", -1])
                elif r < 0.16:
                    ops.append(["dup", -rng.randint(2, 4)])   # resend of an older message (out of order)
                elif r < 0.22:
                    ops.append(["swap"])                      # the next two messages arrive in reverse order
                elif r < 0.30 and not interrupted:
                    interrupted = True
                    kind = rng.choice(["reconnect", "reconnect", "graceful", "crash"])
                    if kind == "reconnect":
                        ops += [["disconnect", "E1"], ["register", "E1"], ["connect", "E1"], ["uodinfo", "E1", interval]]
                    else:
                        ops += [["restart", kind], ["register", "E1"], ["connect", "E1"], ["uodinfo", "E1", interval]]
                    if rng.random() < 0.5:
                        ops.append(["tags", "E1", k, ["PV1", "OUT1", "System State"], 0.5])
            ops.append(["stop", "E1", k])
            if faults and rng.random() < 0.25:
                ops.append(["dup", -1])                       # duplicated run-stopped
            if faults and rng.random() < 0.15:
                ops.append(["tags", "E1", k, ["PV1"], 0.5])    # straggler for the stopped run
        if faults and rng.random() < 0.3:
            idle_reconnect()
            if rng.random() < 0.5:
                ops.append(["stop", "E1", n_runs])             # the stop notification of the last run is sent again
        cfg = {"interval": interval}
        if faults and rng.random() < 0.3:
            # a web push subscriber exists and the push service answers slowly: whatever awaits the notification is
            # suspended while the engine is already back
            cfg["push_latency"] = rng.choice([0.02, 0.12, 0.3, 2.0])
        if faults and rng.random() < 0.25:
            cfg["id_rpc_latency"] = rng.choice([0.12, 0.4, 1.0])
        return {"cfg": cfg, "ops": ops}

    def _gen_errorlog(self, rng: random.Random, tier: str) -> dict:
        ops: list[list] = [["register", "E1"], ["connect", "E1"], ["uodinfo", "E1", 1.0], ["start", "E1", 1]]
        t = 0.0
        reorder = rng.random() < 0.4
        msgs = ["m1", "m2", "m3"]
        for _ in range(rng.randint(1, 8)):
            batch = []
            for _ in range(rng.randint(1, 4)):
                t += rng.choice([0.0, 0.5, 1.0]) if rng.random() < 0.9 else 0.0
                batch.append([rng.choice(msgs), rng.choice([30, 40, 40, 50, 50, 20]), round(t, 3)])   # also levels other than WARNING/ERROR (CRITICAL, INFO)
            ops.append(["errorlog", "E1", batch])
            r = rng.random()
            if r < 0.25:
                ops.append(["dup", -1])
            elif r < 0.35 and reorder:
                ops.append(["swap"])
        ops.append(["errorlog_check", "E1"])
        return {"cfg": {"reorder": reorder}, "ops": ops}

    def _gen_saves(self, rng: random.Random, tier: str) -> dict:
        ops: list[list] = [["register", "E1"], ["connect", "E1"], ["uodinfo", "E1", 1.0]]
        version = 0
        for _ in range(rng.randint(1, 4)):
            n = rng.randint(1, 3)
            group = []
            for c in range(n):
                base = version if rng.random() < 0.85 else max(0, version - 1)
                group.append([f"client{c}", base, rng.choice([0.0, 0.01, 0.05, 0.2]), int(rng.random() < 0.2),
                              rng.choice([0.0, 0.0, 0.005, 0.02, 0.04, 0.08, 0.15, 0.3])])   # staggered arrival
            ops.append(["saves", "E1", group, rng.choice([0.0, 0.0, 0.02])])
            version += 1      # nominal; the oracle reads the real version
            if rng.random() < 0.4:
                # the engine reports its method (as it does while catching up after a reconnect); the report may have been
                # built some saves ago and delivered only now (buffered and replayed, or overtaken)
                ops.append(["methodreport", "E1", rng.choice([0, 0, 1, 1, 2])])
        return {"cfg": {}, "ops": ops}

    def _gen_users(self, rng: random.Random, tier: str) -> dict:
        ops: list[list] = [["register", "E1"], ["connect", "E1"], ["uodinfo", "E1", 1.0]]
        if rng.random() < 0.4:
            ops += [["register", "E2"], ["connect", "E2"], ["uodinfo", "E2", 1.0]]
        users = ["u1", "u2"]
        conns: list[tuple[str, str]] = []
        nconn = 0
        later = None
        for _ in range(rng.randint(3, 14)):
            r = rng.random()
            if r < 0.3 or not conns:
                nconn += 1
                u = rng.choice(users)
                conns.append((f"c{nconn}", u))
                ops.append(["sub", f"c{nconn}", u])
            elif r < 0.38:
                c, u = rng.choice(conns)
                ops.append(["sub", c, u])          # the front end re-issues its subscriptions on the open connection
            elif r < 0.44:
                # another user logs in on the same open connection: from now on the connection belongs to that user
                k = rng.randrange(len(conns))
                c, u = conns[k]
                u2 = rng.choice([x for x in users if x != u])
                conns[k] = (c, u2)
                ops.append(["sub", c, u2])
            elif r < 0.6:
                c, u = rng.choice(conns)
                ops.append(["reg", rng.choice(["E1", "E2"]), u])
            elif r < 0.7:
                c, u = rng.choice(conns)
                ops.append(["unreg", rng.choice(["E1", "E2"]), u])
            elif r < 0.76:
                # the unit's engine goes away and (sometimes only later) comes back: its engine data is created anew
                e = rng.choice(["E1", "E2"]) if any(o[0] == "register" and o[1] == "E2" for o in ops) else "E1"
                ops.append(["disconnect", e])
                back = [["register", e], ["connect", e], ["uodinfo", e, 1.0]]
                if rng.random() < 0.5:
                    ops += back
                else:
                    later = back
            else:
                c, u = conns.pop(rng.randrange(len(conns)))
                if rng.random() < 0.3:
                    # another browser watches the active-user lists and is slow to acknowledge a notification; meanwhile
                    # (sometimes) an engine registers
                    ops.append(["disc_slow", c, rng.choice([0.05, 0.3, 1.0]), rng.random() < 0.4])
                else:
                    ops.append(["disc", c])
            if later and rng.random() < 0.5:
                ops += later
                later = None
        if later:
            ops += later
        return {"cfg": {}, "ops": ops}

    def _gen_ids(self, rng: random.Random, tier: str) -> dict:
        engines = {}
        ops: list[list] = []
        joined = rng.choice(["a_b_c", "x__y", "p_q_r_s", "host_uod_1"])
        cuts = [i for i, ch in enumerate(joined) if ch == "_"]
        spelling = None
        if rng.random() < 0.3:
            b = rng.choice(["lab pc", "lab pc", "a/b", "x%y", "m&n", "q?r", "t+z", "k#1"])
            spelling = (b, next(c for c in b if not c.isalnum()))
        for i in range(rng.randint(2, 4)):
            if rng.random() < 0.5:
                c = rng.choice(cuts)
                comp, uod = joined[:c], joined[c + 1:]          # different splits of one string at the separator
            elif spelling is not None:
                # names that differ only in how a character is spelled: literally, or as the escape an id encoder produces
                base, ch = spelling
                v = rng.random()
                if v < 0.4:
                    comp = base
                elif v < 0.7 or ch != " ":
                    comp = base.replace(ch, "%%%02X" % ord(ch))
                else:
                    # ... or in its white space: a doubled blank, a tab for a blank, a trailing blank
                    comp = rng.choice([base.replace(" ", "  "), base.replace(" ", "\t"), base + " ", " " + base])
                uod = rng.choice(["u", "u", "uod 1", "uod%201", "uod  1"])
            else:
                comp = "".join(rng.choice(NAME_ALPHABET) for _ in range(rng.randint(1, 2)))
                uod = "".join(rng.choice(NAME_ALPHABET) for _ in range(rng.randint(1, 2)))
            engines[f"E{i + 1}"] = [comp, uod]
        names = list(engines)
        if rng.random() < 0.4:
            # a second installation with exactly the same computer and UOD name (it must never get the id while the
            # first one is connected)
            engines["E9"] = list(engines[rng.choice(names)])
            names.append("E9")
        for _ in range(rng.randint(2, 10)):
            e = rng.choice(names)
            r = rng.random()
            if r < 0.45:
                ops.append(["register", e])
            elif r < 0.75:
                ops.append(["connect", e])
            elif r < 0.9:
                ops.append(["disconnect", e])
            else:
                # the aggregator restarts; engines keep their id and reconnect without registering again
                ops.append(["restart", rng.choice(["graceful", "crash"])])
        return {"cfg": {"engines": engines}, "ops": ops}

    def shrink(self, plan: dict) -> Iterator[dict]:
        ops = plan["ops"]
        for i, op in enumerate(ops):
            if op[0] == "tags" and len(op[3]) > 1:
                yield dict(plan, ops=ops[:i] + [[op[0], op[1], op[2], op[3][:1], op[4]]] + ops[i + 1:])
            if op[0] == "saves" and len(op[2]) > 1:
                for j in range(len(op[2])):
                    yield dict(plan, ops=ops[:i] + [[op[0], op[1], op[2][:j] + op[2][j + 1:], op[3]]] + ops[i + 1:])
            if op[0] == "errorlog" and len(op[2]) > 1:
                for j in range(len(op[2])):
                    yield dict(plan, ops=ops[:i] + [[op[0], op[1], op[2][:j] + op[2][j + 1:]]] + ops[i + 1:])

    def sample(self, plan: dict) -> Any:
        return {"cfg": plan["cfg"], "ops": [json.dumps(o) for o in plan["ops"]]}

    # ------------------------------------------------------------------ execution
    def execute(self, plan: dict, tape: Tape) -> RunResult:
        res = RunResult()
        rec = Recorder()
        loop = vloop.new_loop()
        try:
            database.configure_db("sqlite:///:memory:")
            DMdl.DBModel.metadata.create_all(database._engine)
            loop.run_until_complete(self._main(plan, res, rec, tape, loop))
        finally:
            vloop.close_loop(loop)
            try:
                if database._engine is not None:
                    database._engine.dispose()
            except Exception:
                pass
        res.digest = rec.digest()
        return res

    async def _main(self, plan, res: RunResult, rec: Recorder, tape: Tape, loop) -> None:
        w = World(res, rec, tape, loop)
        clockp = _LoopTime(loop)
        dtp = make_datetime_proxy(clockp)
        with patched((m_agg, "time", TimeProxy(clockp)), (m_agg, "datetime", dtp), (m_repo, "datetime", dtp),
                     (m_models, "time", TimeProxy(clockp)), (m_models, "datetime", dtp)):
            await self._run(w, plan, res, rec, loop)
        res.sim_seconds = loop.time()
        res.steps = loop.steps

    async def _deliver(self, w: World, msg) -> Any:
        """One wire hop engine -> aggregator through the real dispatcher entry point."""
        wire = json.loads(json.dumps(serialize(msg), default=_wire_default))
        back = deserialize(wire)
        w.delivered.append(msg)
        reply = await w.dispatcher.dispatch_message(back)
        w.rec.log("deliver", type(msg).__name__, getattr(msg, "run_id", None), type(reply).__name__)
        return reply

    async def _run(self, w: World, plan, res: RunResult, rec: Recorder, loop) -> None:
        cfg = plan["cfg"]
        fp: list[str] = []
        pending_swap = False
        held: Any = None
        run_started_delivered: dict[str, int] = {}
        run_stopped_delivered: dict[str, int] = {}
        live: dict[str, set] = {}       # conn -> users that subscribed their dead man's switch on it
        registered: set[tuple[str, str]] = set()
        optional: set[tuple[str, str]] = set()     # registered before the unit's engine reconnected: may be listed, need not
        self._optional = optional
        crash_restart_during: set[str] = set()
        active_run: dict[str, str | None] = {}
        errorlog_truth: list[tuple[str, int, float]] = []
        errorlog_delivered: list[tuple[str, int, float]] = []

        def eid(e):
            return w.engine_ids.get(e)

        async def send(msg):
            nonlocal pending_swap, held
            if held is not None and type(msg) is not type(held):
                h, held = held, None          # only two data messages of one kind can overtake each other
                pending_swap = False
                await self._deliver(w, h)
            if pending_swap and held is None and isinstance(msg, (EM.TagsUpdatedMsg, EM.ErrorLogMsg)):
                held = msg
                return None
            r = await self._deliver(w, msg)
            if held is not None:
                h, held = held, None
                pending_swap = False
                res.fault("reordered_pair")
                await self._deliver(w, h)
            return r

        bg: list = []
        w.webpush.latency = cfg.get("push_latency", 0.0)

        async def closed(ch, step):
            # the endpoint reports a closed websocket to the dispatcher; an exception there is the dispatcher's, not the
            # harness's
            try:
                await w.dispatcher.on_client_disconnect(ch)
            except Exception as ex:
                res.add("C38", "C38.disconnect_callback_raised", type(ex).__name__, step,
                        f"on_client_disconnect raised {ex!r} for the websocket {ch.id} (accepted={ch.accepted})")

        for step, op in enumerate(plan["ops"]):
            k = op[0]
            fp.append(k[:3])
            await asyncio.sleep(0.05)
            if k == "register":
                e = op[1]
                comp, uod = cfg.get("engines", {}).get(e, ["host", "uod" + e])
                w.engine_names[e] = (comp, uod)
                msg = EM.RegisterEngineMsg(computer_name=comp, uod_name=uod, uod_author_name="a", uod_author_email="a@b",
                                           uod_filename="f.py", location="loc", engine_version=_version(), secret="")
                before = {k2: (v.computer_name, v.uod_name) for k2, v in w.aggregator._engine_data_map.items()}
                # harness truth, not the dispatcher's own map: the ids of the engines whose websocket is open
                connected_before = {ch.engine_id for e2, ch in w.live_channels.items() if e2 != e}
                reply = await w.handlers.handle_RegisterEngineMsg(msg)
                rec.log("register", e, reply.success, reply.engine_id)
                if reply.success:
                    w.engine_ids[e] = reply.engine_id
                    # C38: two engines with different name pairs never share an id
                    for e2, (c2, u2) in w.engine_names.items():
                        if e2 != e and (c2, u2) != (comp, uod) and w.engine_ids.get(e2) == reply.engine_id:
                            # the known defect: the names are joined with '_' before they are encoded, so two splits of
                            # one string collide. Any other collision (different joined strings) is something else
                            how = "separator" if c2 + "_" + u2 == comp + "_" + uod else "encoding"
                            res.add("C38", "C38.engine_id_collision", how, step,
                                    f"engines ({c2!r}, {u2!r}) and ({comp!r}, {uod!r}) both received id {reply.engine_id!r}")
                    if reply.engine_id in connected_before:
                        res.add("C38", "C38.connected_engine_id_taken_over", "register", step,
                                f"registration for id {reply.engine_id!r} accepted while an engine with that id is connected")
                else:
                    # a refused registration must leave the connected engine's data untouched
                    after = {k2: (v.computer_name, v.uod_name) for k2, v in w.aggregator._engine_data_map.items()}
                    if after != before:
                        res.add("C38", "C38.refused_registration_changed_data", "register", step, f"{before} -> {after}")
                    res.probe("registration_refused")
            elif k == "connect":
                e = op[1]
                if eid(e) is None or e in w.live_channels:
                    continue
                # the dispatcher's real connect path: on_client_connect -> delayed task -> id lookup over rpc -> accept, or
                # close the socket of a second engine with a connected id; the endpoint reports every closed socket
                w.n_channels += 1
                lat = cfg.get("id_rpc_latency", 0.001)
                ch = FakeChannel(eid(e), w.n_channels, lat)
                disp = w.dispatcher
                await disp.on_client_connect(ch)

                async def finish(ch=ch, e=e, disp=disp, step=step):
                    for _ in range(2000):
                        if not disp._on_client_connect_tasks:
                            break
                        await asyncio.sleep(0.005)
                    if disp is not w.dispatcher:
                        return                      # the aggregator restarted meanwhile: the socket is gone with it
                    if ch.closed:
                        res.probe("websocket_rejected")
                        await closed(ch, step)
                    else:
                        ch.accepted = True
                        w.live_channels[e] = ch
                        w.engine_method_version.setdefault(eid(e), 0)
                if lat <= 0.01:
                    await finish()
                else:
                    # the id lookup over the new websocket is slow: the engine's first messages (it posts as soon as its
                    # socket is open) are handled before the dispatcher has finished its connect handling
                    res.fault("slow_engine_id_round_trip")
                    bg.append(asyncio.ensure_future(finish()))
            elif k == "disconnect":
                e = op[1]
                ch = w.live_channels.pop(e, None)
                if ch is not None:
                    ch.closed = True
                    # the endpoint reports the closed socket from the websocket's own task: the engine's next
                    # registration (a REST request) and its new websocket do not wait for that report to be handled
                    bg.append(asyncio.ensure_future(closed(ch, step)))
                    await asyncio.sleep(0)
                    res.fault("engine_disconnect")
                    # the unit's engine data is dropped with its active users: a registration made before is no longer
                    # *required* to show (the statement only says when a user may be listed)
                    for (ee, u) in list(registered):
                        if ee == e:
                            registered.discard((ee, u))
                            optional.add((ee, u))
            elif k == "restart":
                kind = op[1]
                if kind == "graceful":
                    w.aggregator.shutdown()
                    res.fault("aggregator_graceful_restart")
                else:
                    res.fault("aggregator_crash_restart")
                    for e, rid in active_run.items():
                        if rid:
                            crash_restart_during.add(rid)
                w.new_aggregator()
            elif k == "uodinfo":
                e = op[1]
                if eid(e) is None:
                    continue
                await send(_uod_info(eid(e), op[2]))
            elif k == "start":
                e, kk = op[1], op[2]
                if eid(e) is None:
                    continue
                rid = f"run-{e}-{kk}"
                active_run[e] = rid
                w.engine_time[e] = w.engine_time.get(e, T0) + 0.1
                await send(EM.RunStartedMsg(engine_id=eid(e), run_id=rid, started_tick=w.engine_time[e]))
                run_started_delivered[rid] = run_started_delivered.get(rid, 0) + 1
            elif k == "stop":
                e, kk = op[1], op[2]
                if eid(e) is None:
                    continue
                rid = f"run-{e}-{kk}"
                await send(EM.RunStoppedMsg(engine_id=eid(e), run_id=rid, runlog=PMdl.RunLog(lines=[]),
                                            method_state=PMdl.MethodState.empty(), archive=None, archive_filename=None))
                run_stopped_delivered[rid] = run_stopped_delivered.get(rid, 0) + 1
                active_run[e] = None
            elif k == "tags":
                e, kk, names, dt = op[1], op[2], op[3], op[4]
                if eid(e) is None:
                    continue
                w.engine_time[e] = w.engine_time.get(e, T0) + dt
                t = w.engine_time[e]
                rid = f"run-{e}-{kk}" if kk is not None else None
                tags = []
                for n in names:
                    w.value_counter += 1
                    val: Any = float(w.value_counter) if n != "System State" else f"S{w.value_counter}"
                    tags.append(PMdl.TagValue(name=n, tick_time=t, value=val, value_unit=None))
                    w.reports.setdefault((eid(e), n), []).append((t, val))
                await send(EM.TagsUpdatedMsg(engine_id=eid(e), tags=tags, run_id=rid))
            elif k == "errorlog":
                e, batch = op[1], op[2]
                if eid(e) is None:
                    continue
                entries = [PMdl.ErrorLogEntry(message=m, severity=s, created_time=T0 + ct) for m, s, ct in batch]
                errorlog_truth += [(m, s, T0 + ct) for m, s, ct in batch]
                await send(EM.ErrorLogMsg(engine_id=eid(e), log=PMdl.ErrorLog(entries=entries)))
            elif k == "dup":
                idx = op[1]
                if len(w.delivered) >= -idx and (idx == -1 or isinstance(w.delivered[idx], (EM.TagsUpdatedMsg, EM.ErrorLogMsg))):
                    # an immediate duplicate of any message, or a late resend of a data message
                    res.fault("duplicate_or_resend")
                    m = w.delivered[idx]
                    await self._deliver(w, m)
                    if isinstance(m, EM.RunStartedMsg):
                        run_started_delivered[m.run_id] = run_started_delivered.get(m.run_id, 0) + 1
                    if isinstance(m, EM.RunStoppedMsg):
                        run_stopped_delivered[m.run_id] = run_stopped_delivered.get(m.run_id, 0) + 1
            elif k == "swap":
                pending_swap = True
            elif k == "saves":
                await self._saves(w, op, res, step)
            elif k == "methodreport":
                e, lag = op[1], op[2]
                hist = w.engine_method_hist.get(eid(e) or "", [])
                if eid(e) is None or not hist:
                    continue
                m = hist[max(0, len(hist) - 1 - lag)]
                if lag and len(hist) > 1:
                    res.fault("stale_method_report_delivered_late")
                lines = list(m.lines)
                if not lines or lines[-1].content != "":
                    lines.append(PMdl.MethodLine(id="end", content=""))
                await send(EM.MethodMsg(engine_id=eid(e), method=PMdl.Method(lines=lines, version=m.version)))
            elif k in ("sub", "reg", "unreg", "disc", "disc_slow"):
                await self._users(w, op, live, registered, res, step)
            elif k == "errorlog_check":
                self._check_errorlog(w, eid(op[1]), res, step, cfg.get("reorder", False))
            else:
                raise HarnessError(f"unknown op {op}")
            # C28 invariant after every step: a run that the engine believes active is known under the same id
            if k in ("tags",) and op[2] is not None and eid(op[1]) is not None:
                ed = w.aggregator.get_registered_engine_data(eid(op[1]))
                rid = f"run-{op[1]}-{op[2]}"
                if ed is None and op[1] in w.live_channels and any(o[0] == "disconnect" for o in plan["ops"][:step]):
                    res.add("C28", "C28.reconnected_engine_has_no_data", "engine_data", step,
                            f"{op[1]} re-registered and its websocket was accepted, but the aggregator holds no engine data "
                            f"for id {eid(op[1])!r}: its messages for run {rid} are answered 'not registered'")
                if active_run.get(op[1]) == rid and ed is not None:
                    if not ed.has_run() or ed.run_data.run_id != rid:
                        kind = "C28.crash_restart_loses_run" if rid in crash_restart_during else "C28.run_not_continued"
                        if kind == "C28.run_not_continued" and not any(o[0] in ("disconnect", "restart") for o in plan["ops"][:step]):
                            continue      # C28 is about reconnects and restarts; other histories belong to C30
                        res.add("C28", kind, "engine_data", step,
                                f"engine reports tags for active run {rid} but the aggregator has "
                                f"{'no run' if not ed.has_run() else ed.run_data.run_id}")
            # C38 invariant after every step: an engine whose websocket is open and was accepted is connected under its id
            # (otherwise a second installation with the same names can register and take the id over), and no two open,
            # accepted websockets carry the same id
            seen_ids: dict[str, str] = {}
            for e2, ch in w.live_channels.items():
                if not w.dispatcher.has_connected_engine_id(ch.engine_id):
                    res.add("C38", "C38.connected_engine_forgotten", k, step,
                            f"the websocket of {e2} (id {ch.engine_id!r}) is open and was accepted, but after {k} the dispatcher "
                            f"no longer knows the id as connected")
                if ch.engine_id in seen_ids:
                    res.add("C38", "C38.two_live_engines_share_id", k, step,
                            f"{seen_ids[ch.engine_id]} and {e2} are both connected under id {ch.engine_id!r}")
                seen_ids[ch.engine_id] = e2
            res.state(k, len(w.aggregator._engine_data_map), len(w.dispatcher._engine_id_channel_map),
                      sum(1 for d in w.aggregator._engine_data_map.values() if d.has_run()))
        if held is not None:
            await self._deliver(w, held)
        if bg:
            await asyncio.gather(*bg, return_exceptions=True)
        await asyncio.sleep(0.5)
        self._check_db(w, plan, res, run_started_delivered, run_stopped_delivered, crash_restart_during)
        res.fingerprint = stable_hash(fp)
        res.nontrivial = len(plan["ops"]) >= 5

    # ------------------------------------------------------------------ front-end ops
    async def _saves(self, w: World, op, res: RunResult, step: int) -> None:
        _, e, group, _ = op
        engine_id = w.engine_ids.get(e)
        if engine_id is None:
            return
        ed = w.aggregator.get_registered_engine_data(engine_id)
        if ed is None:
            return
        v0 = ed.method.version
        results: list[tuple[str, int, Any]] = []

        async def one(client, base, lat, fail, delay=0.0):
            await asyncio.sleep(delay)  # requests arrive at drawn offsets; the engine round trip differs per request
            method = m_models.Method(lines=[PMdl.MethodLine(id="l1", content=f"Mark: {client}"),
                                            PMdl.MethodLine(id="l2", content="")], version=base, last_author=client)
            w.rpc_latencies.append(lat)
            if fail:
                w.rpc_fail += 1
            try:
                nv = await w.aggregator.from_frontend.save_method(engine_id, method, m_models.Contributor(id=client, name=client))
                results.append((client, base, nv))
            except Exception as ex:
                results.append((client, base, ex))
        await asyncio.gather(*[one(*g) for g in group])
        v1 = ed.method.version
        accepted = [(c, b, r) for c, b, r in results if isinstance(r, int)]
        per_base: dict[int, int] = {}
        for c, b, r in accepted:
            per_base[b] = per_base.get(b, 0) + 1
        for b, n in per_base.items():
            if n > 1:
                res.add("C31", "C31.two_saves_accepted_on_same_version", "save_method", step,
                        f"{n} saves based on version {b} were all accepted: {[(c, r) for c, bb, r in accepted if bb == b]}")
        if v1 != v0 + len(accepted):
            res.add("C31", "C31.version_not_incremented_per_accepted_save", "save_method", step,
                    f"version {v0} -> {v1} after {len(accepted)} accepted save(s)")
        versions = [r for c, b, r in accepted]
        if len(set(versions)) != len(versions):
            res.add("C31", "C31.two_saves_accepted_on_same_version", "save_method", step,
                    f"accepted saves returned the same new version: {[(c, b, r) for c, b, r in accepted]}")
        for c, b, r in accepted:
            if b != v0 and len(accepted) == 1:
                res.add("C31", "C31.stale_save_accepted", "save_method", step,
                        f"save based on version {b} accepted while the current version was {v0}")
        for c, b, r in results:
            if not isinstance(r, int) and b == v0 and len(group) == 1 and isinstance(r, AggregatorCallerException):
                res.add("C31", "C31.current_version_save_rejected", "save_method", step, f"{c}: {r!r}")
        # ... and over the whole history (the version must not come back: an engine's method report does not carry it)
        for c, b, r in accepted:
            w.accepted_saves.append((engine_id, b, r))
        bases: dict[int, list[int]] = {}
        for (e2, b, r) in w.accepted_saves:
            if e2 == engine_id:
                bases.setdefault(b, []).append(r)
        for b, rs in bases.items():
            if len(rs) > 1 and per_base.get(b, 0) <= 1 and any(r in rs for _, bb, r in accepted if bb == b):
                res.add("C31", "C31.two_saves_accepted_on_same_version", "save_method_across_groups", step,
                        f"{len(rs)} saves based on version {b} were accepted over the history (new versions {rs})")
        res.probe("save_groups")
        if len(group) > 1:
            res.probe("concurrent_save_groups")

    async def _users(self, w: World, op, live, registered, res: RunResult, step: int) -> None:
        k = op[0]
        ff = w.aggregator.from_frontend
        def is_live(u):
            return any(u in us for us in live.values())
        if k == "sub":
            # subscriptions are additive: a connection on which a second user logs in still carries the dead man's switch
            # of the first one; it counts as a live connection of both until it closes
            live.setdefault(op[1], set()).add(op[2])
            topics = [f"dead_man_switch/{op[2]}"]
            if step % 3 == 0:
                topics = ["x/run_log", f"dead_man_switch/{op[2]}", "x/method"]     # one event may carry several topics
            await ff.user_subscribed_pubsub(op[1], topics)
        elif k == "reg":
            e, u = op[1], op[2]
            if not is_live(u) or w.engine_ids.get(e) is None:
                return
            if await ff.register_active_user(w.engine_ids[e], u, u):
                registered.add((e, u))
                self._optional.discard((e, u))
        elif k == "unreg":
            e, u = op[1], op[2]
            if w.engine_ids.get(e) is None:
                return
            await ff.unregister_active_user(w.engine_ids[e], u)
            registered.discard((e, u))
            self._optional.discard((e, u))
        elif k in ("disc", "disc_slow"):
            c = op[1]
            if c not in live:
                return
            gone = live.pop(c)
            try:
                if k == "disc":
                    await w.publisher.on_disconnect(_Chan(c))
                else:
                    from openpectus.aggregator.frontend_publisher import PubSubTopic
                    lat = op[2]
                    if not getattr(w, "observer", False):
                        w.observer = True

                        async def slow_ack(subscription, data):
                            await asyncio.sleep(w.observer_latency)       # virtual time
                        topics = [f"{i}/{PubSubTopic.ACTIVE_USERS}" for i in w.engine_ids.values() if i]
                        if topics:
                            await w.publisher.pubsub_endpoint.notifier.subscribe("observer-connection", topics, slow_ack)
                    w.observer_latency = lat
                    task = asyncio.ensure_future(w.publisher.on_disconnect(_Chan(c)))
                    await asyncio.sleep(lat / 2)
                    res.fault("slow_subscriber_acknowledgement")
                    # the connection is closed: whatever another coroutine sees now must already be consistent
                    for u in gone:
                        if not is_live(u):
                            for e, engine_id in w.engine_ids.items():
                                ed = w.aggregator.get_registered_engine_data(engine_id) if engine_id else None
                                if ed is not None and u in ed.active_users:
                                    res.add("C37", "C37.user_listed_without_live_connection", "during_disconnect", step,
                                            f"unit {e}: {u} is still listed {lat / 2:g} s after their last connection "
                                            f"{c} closed (the disconnect handler is waiting for a subscriber)")
                    if op[3]:
                        # an engine registers while the handler is suspended
                        msg = EM.RegisterEngineMsg(computer_name="late", uod_name="unit", uod_author_name="a",
                                                   uod_author_email="a@b", uod_filename="f.py", location="loc",
                                                   engine_version=_version(), secret="")
                        await w.handlers.handle_RegisterEngineMsg(msg)
                    await asyncio.wait_for(task, timeout=10 * lat + 5)
            except Exception as ex:
                res.add("C37", "C37.disconnect_handler_raised", type(ex).__name__, step, repr(ex))
            for u in gone:
                if not is_live(u):
                    for (e, uu) in list(registered):
                        if uu == u:
                            registered.discard((e, uu))
                    for (e, uu) in list(self._optional):
                        if uu == u:
                            self._optional.discard((e, uu))
        # invariant
        for e, engine_id in w.engine_ids.items():
            if engine_id is None:
                continue
            ed = w.aggregator.get_registered_engine_data(engine_id)
            if ed is None:
                continue
            want = {u for (ee, u) in registered if ee == e and is_live(u)}
            allowed = want | {u for (ee, u) in self._optional if ee == e and is_live(u)}
            got = set(ed.active_users)
            if got - allowed or want - got:
                extra, missing = got - allowed, want - got
                if extra:
                    res.add("C37", "C37.user_listed_without_live_connection", "active_users", step,
                            f"unit {e}: active users {sorted(got)}, expected {sorted(want)} (live connections "
                            f"{ {c: sorted(us) for c, us in live.items()} })")
                if missing:
                    res.add("C37", "C37.registered_live_user_missing", "active_users", step,
                            f"unit {e}: active users {sorted(got)}, expected {sorted(want)} (live connections {live})")
        res.probe("user_events")

    # ------------------------------------------------------------------ end-of-run checks
    def _check_errorlog(self, w: World, engine_id, res: RunResult, step: int, reorder: bool) -> None:
        if engine_id is None:
            return
        ed = w.aggregator.get_registered_engine_data(engine_id)
        if ed is None:
            return
        delivered: list[tuple[str, int, float]] = []
        for m in w.delivered:
            if isinstance(m, EM.ErrorLogMsg):
                delivered += [(en.message, en.severity, en.created_time) for en in m.log.entries]
        got = [(en.message, en.severity, en.created_time, en.occurrences) for en in ed.error_log.entries]
        if not reorder:
            # reference aggregator of the statement, applied to the delivered stream
            ref: list[list] = []
            for (m, s, t) in delivered:
                if ref and ref[-1][0] == m and ref[-1][1] == s:
                    if t > ref[-1][2]:
                        ref[-1][2] = t
                        ref[-1][3] += 1
                    elif t == ref[-1][2]:
                        pass            # identical time: redelivered duplicate
                    else:
                        ref = None      # earlier time without reordering cannot happen in this profile
                        break
                else:
                    ref.append([m, s, t, 1])
            if ref is not None and [tuple(r) for r in ref] != got:
                res.add("C35", "C35.aggregation_differs_from_reference", "error_log", step,
                        f"aggregated {got[:6]} expected {[tuple(r) for r in ref][:6]}")
            elif ref is not None:
                res.probe("errorlog_reference_matched")
        # nothing is lost: every distinct delivered entry is accounted for
        distinct = {}
        for (m, s, t) in delivered:
            distinct.setdefault((m, s), set()).add(t)
        total: dict[tuple[str, int], int] = {}
        for (m, s, t, occ) in got:
            total[(m, s)] = total.get((m, s), 0) + occ
        for key, times in distinct.items():
            if total.get(key, 0) < len(times):
                kind = "C35.entry_lost_when_reordered" if reorder else "C35.entry_lost"
                res.add("C35", kind, "error_log", step,
                        f"{len(times)} distinct entries {key} delivered, aggregated occurrences {total.get(key, 0)}")

    def _check_db(self, w: World, plan, res: RunResult, started, stopped, crashed) -> None:
        step = len(plan["ops"])
        interval = plan["cfg"].get("interval")
        with database.create_scope():
            s = database.scoped_session()
            runs = s.scalars(select(DMdl.RecentRun)).all()
            plot_logs = s.scalars(select(DMdl.PlotLog)).all()
            rr: dict[str, int] = {}
            for r in runs:
                rr[r.run_id] = rr.get(r.run_id, 0) + 1
            pl: dict[str, int] = {}
            for p in plot_logs:
                pl[p.run_id] = pl.get(p.run_id, 0) + 1
            for rid in started:
                if stopped.get(rid, 0) >= 1:
                    ctx = "@crash_restart" if rid in crashed else ""
                    if rr.get(rid, 0) != 1:
                        restarted = "@restart" if any(o[0] == "restart" for o in plan["ops"]) else ""
                        prop, kind = ("C28", "C28.crash_restart_loses_run") if (ctx and rr.get(rid, 0) == 0) else \
                            ("C30", "C30.recent_run_count" + (ctx or restarted))
                        res.add(prop, kind, f"{rr.get(rid, 0)}", step,
                                f"run {rid}: {started[rid]} start / {stopped[rid]} stop notifications delivered, "
                                f"{rr.get(rid, 0)} RecentRun row(s)")
                        if prop == "C30" and any(o[0] in ("disconnect", "restart") for o in plan["ops"]):
                            # C28's last clause: across reconnects and restarts the run is stored once when it stops
                            res.add("C28", "C28.run_not_stored_once" + (ctx or restarted), f"{rr.get(rid, 0)}", step,
                                    f"history with reconnect/restart; run {rid}: {started[rid]} start / {stopped[rid]} stop "
                                    f"notifications delivered, {rr.get(rid, 0)} RecentRun row(s)")
                    if pl.get(rid, 0) != 1:
                        res.add("C30", "C30.plot_log_count" + ctx, f"{pl.get(rid, 0)}", step,
                                f"run {rid}: {started[rid]} start notification(s) delivered, {pl.get(rid, 0)} PlotLog row(s)")
                    res.probe("runs_checked")
            # C29 over the persisted values
            if interval is not None:
                for p in plot_logs:
                    entries = s.scalars(select(DMdl.PlotLogEntry).where(DMdl.PlotLogEntry.plot_log_id == p.id)).all()
                    batch_times: list[float] = []
                    for en in entries:
                        vals = s.scalars(select(DMdl.PlotLogEntryValue).where(
                            DMdl.PlotLogEntryValue.plot_log_entry_id == en.id).order_by(DMdl.PlotLogEntryValue.id)).all()
                        prev = None
                        prev_src = None
                        for v in vals:
                            val = v.value_float if v.value_float is not None else (v.value_str if v.value_str is not None else v.value_int)
                            if prev is not None and not v.tick_time > prev:
                                res.add("C29", "C29.timestamps_not_increasing", en.name, step,
                                        f"run {p.run_id} tag {en.name}: row time {v.tick_time} after {prev}")
                            prev = v.tick_time
                            batch_times.append(v.tick_time)
                            reps = w.reports.get((p.engine_id, en.name), [])
                            src = [rt for rt, rv in reps if rv == val]       # values are unique: the report this row stems from
                            if src:
                                if prev_src is not None and src[0] < prev_src - 1e-9:
                                    res.add("C29", "C29.recorded_value_older_than_previous", en.name, step,
                                            f"run {p.run_id} tag {en.name}: row ({v.tick_time}, {val!r}) stems from the report at "
                                            f"{src[0]}, older than the previously recorded value's report at {prev_src}")
                                prev_src = src[0]
                            if not any(rv == val and rt <= v.tick_time + 1e-9 for rt, rv in reps):
                                res.add("C29", "C29.value_never_reported", en.name, step,
                                        f"run {p.run_id} tag {en.name}: stored ({v.tick_time}, {val!r}) has no report with "
                                        f"that value at or before that time")
                            res.probe("plot_rows_checked")
                    bt = sorted(set(batch_times))
                    for a, b in zip(bt, bt[1:]):
                        if b - a <= interval - 1e-9:
                            res.add("C29", "C29.persisted_more_often_than_interval" + ("@reconnect" if any(
                                o[0] in ("disconnect", "restart") for o in plan["ops"]) else ""), "batch", step,
                                    f"run {p.run_id}: batches at {a} and {b}, data log interval {interval}")


class _LoopTime:
    """Clock adapter: simulated wall clock = T0 + loop time (+ micro steps per read)."""

    def __init__(self, loop):
        self.loop = loop
        self._n = 0
        self.micro = True

    @property
    def now(self):
        return T0 + self.loop.time()

    def read(self):
        self._n = (self._n + 1) % 9000
        return T0 + self.loop.time() + 1e-7 * self._n

    def advance(self, dt):
        pass


class _Chan:
    def __init__(self, cid):
        self.id = cid


def _wire_default(o):
    if isinstance(o, (set, frozenset)):
        return sorted(o)
    return str(o)


def _version() -> str:
    from openpectus import __version__
    return __version__


def _uod_info(engine_id: str, interval: float) -> EM.UodInfoMsg:
    readings = [PMdl.ReadingInfo(discriminator="reading", tag_name=n, valid_value_units=None, commands=[], entry_data_type=None,
                                 command_options=None) for n in ("PV1", "OUT1", "System State", "Run Time", "LateTag")]
    return EM.UodInfoMsg(engine_id=engine_id, readings=readings, commands=[],
                         uod_definition=PMdl.UodDefinition(commands=[], system_commands=[], tags=[]),
                         plot_configuration=PMdl.PlotConfiguration.empty(), hardware_str="sim",
                         required_roles=set(), data_log_interval_seconds=interval)
