"""Inventory of wall-clock / random / uuid / datetime imports under /repo/openpectus (non-test).

`selftest seams` greps the tree under test and fails (HARNESS-ERROR) when a module shows up that is in
neither table: a new source of nondeterminism must be put behind a seam before results can be trusted.
"""

# module -> how the simulators neutralise it
HANDLED = {
    "openpectus/engine/hardware_recovery.py": "time -> TimeProxy(SimClock) [SIM-H, SIM-E with recovery]",
    "openpectus/lang/exec/tags.py": "time -> TimeProxy; datetime only formats a given value",
    "openpectus/lang/exec/tags_impl.py": "time -> TimeProxy",
    "openpectus/lang/exec/events.py": "time -> TimeProxy (perf timers only feed logging)",
    "openpectus/lang/exec/uod.py": "time -> TimeProxy",
    "openpectus/lang/exec/units.py": "time -> TimeProxy (perf logging only)",
    "openpectus/lang/exec/timer.py": "time -> TimeProxy; the simulators never start the timer thread (they call Engine.tick)",
    "openpectus/lang/exec/clock.py": "replaced by the simulator's Clock object passed to EngineTiming",
    "openpectus/lang/exec/interpreter_models.py": "datetime type annotations only",
    "openpectus/lang/exec/pinterpreter.py": "uuid -> counter-based generator",
    "openpectus/lang/exec/runlog.py": "uuid -> counter-based generator",
    "openpectus/lang/exec/readings.py": "uuid -> counter-based generator",
    "openpectus/lang/exec/tracking.py": "uuid -> counter-based generator",
    "openpectus/engine/engine.py": "uuid -> counter-based generator",
    "openpectus/engine/internal_commands_impl.py": "time -> TimeProxy",
    "openpectus/engine/method_manager.py": "datetime -> SimDateTime (last_modified stamp)",
    "openpectus/engine/archiver.py": "time, datetime -> proxies; open/os -> in-memory FS [SIM-E archive profile]",
    "openpectus/engine/engine_message_builder.py": "time, datetime -> proxies",
    "openpectus/engine/engine_runner.py": "time, random -> proxies; asyncio on the virtual-time loop [SIM-R]",
    "openpectus/aggregator/aggregator.py": "time, datetime -> proxies [SIM-A]",
    "openpectus/aggregator/models.py": "time, datetime -> proxies [SIM-A]",
    "openpectus/aggregator/data/repository.py": "datetime -> SimDateTime [SIM-A]",
    "openpectus/aggregator/data/models.py": "datetime -> SimDateTime defaults [SIM-A]",
    "openpectus/aggregator/webpush_publisher.py": "time -> TimeProxy; sender is a recording fake [SIM-A]",
}

# modules no simulator loads code paths of
NOT_LOADED = {
    "openpectus/lsp/main.py": "LSP server entry point",
    "openpectus/lsp/lsp_analysis.py": "time only used for perf logging in the LSP; C20 calls the analyzer functions, time not observable",
    "openpectus/lsp/pylsp_plugin.py": "LSP plug-in",
    "openpectus/engine/configuration/labjack_test.py": "hardware test UOD",
    "openpectus/engine/configuration/demo_uod.py": "demo UOD (the simulators build their own probe UOD)",
    "openpectus/engine/configuration/opcua_test.py": "hardware test UOD",
    "openpectus/aggregator/routers/dto.py": "REST DTOs; not on any simulated path",
}
