"""SIM-H: hardware recovery simulator (C23, C24).

Real: ErrorRecoveryDecorator, ErrorRecoveryConfig, Register, Connection Status Tag,
HardwareLayerBase default read_batch/write_batch/reconnect.
Stub: the device (FaultyDevice: scripted per-call success/failure, torn batch writes,
reconnect outcome, memory reset on reconnect) and the clock.
"""
from __future__ import annotations

import random
from typing import Any, Iterator

from simcore.clock import SimClock, TimeProxy, patched
from simcore.core import Recorder, RunResult, Tape, stable_hash
from simcore.driver import Simulator

from openpectus.engine import hardware_recovery as hr
from openpectus.engine.hardware import HardwareLayerBase, HardwareLayerException, Register, RegisterDirection
from openpectus.lang.exec import tags as tags_mod
from openpectus.lang.exec.tags import Tag, SystemTagName

READ_REGS = ["R1", "R2", "RW"]
WRITE_REGS = ["W1", "W2", "W3", "RW"]
ADVANCES = [0.1, 0.5, 1.0, 4.0, 9.5, 10.0, 10.5, 11.0, 3601.0, 17999.0, 18000.0, 18001.0]


class FaultyDevice(HardwareLayerBase):
    def __init__(self, rec: Recorder):
        super().__init__()
        for n in ["R1", "R2"]:
            self._registers[n] = Register(n, RegisterDirection.Read)
        for n in ["W1", "W2", "W3"]:
            self._registers[n] = Register(n, RegisterDirection.Write)
        self._registers["RW"] = Register("RW", RegisterDirection.Both)
        self.rec = rec
        self.mem: dict[str, Any] = {}             # output memory as the device holds it
        self.write_log: list[tuple[str, Any, bool]] = []
        self.read_counter = 0
        self.last_returned: dict[str, Any] = {}   # last value a successful device read returned
        # script for the op being executed
        self.fail_reads = False
        self.fail_writes_after: int | None = None   # number of single writes that succeed before failing
        self.writes_done = 0
        self.connect_ok = True
        self.reset_on_connect = False
        self.calls = {"read": 0, "write": 0, "connect": 0, "disconnect": 0}
        self.device_failed = False                 # any scripted failure fired during this op
        self.primary_failed = False
        self.pend_fail = False
        self.in_batch = False
        self.primary_done = False

    def script(self, fail_reads=False, fail_writes_after=None, connect_ok=True, reset=False, pend_fail=False,
               disc_fail=False):
        self.disc_fail = disc_fail
        self.fail_reads = fail_reads
        self.primary_failed = False
        self.pend_fail = pend_fail
        self.in_batch = False
        self.primary_done = False
        self.fail_writes_after = fail_writes_after
        self.writes_done = 0
        self.connect_ok = connect_ok
        self.reset_on_connect = reset
        self.device_failed = False
        self.calls = {"read": 0, "write": 0, "connect": 0, "disconnect": 0}

    def read(self, r: Register) -> Any:
        self.calls["read"] += 1
        if self.fail_reads:
            self.device_failed = True
            self.rec.log("dev.read.fail", r.name)
            raise HardwareLayerException("sim read failure")
        self.read_counter += 1
        v = self.read_counter * 1.5
        self.last_returned[r.name] = v
        self.rec.log("dev.read", r.name, v)
        return v

    # read_batch: default implementation of the base class (loops read)

    def write(self, value: Any, r: Register) -> None:
        self.calls["write"] += 1
        is_flush = self.primary_done and not self.in_batch
        if is_flush:
            self.calls["flush"] = self.calls.get("flush", 0) + 1
            if self.pend_fail:
                self.device_failed = True
                self.rec.log("dev.flush.fail", r.name, value)
                raise HardwareLayerException("sim pending-flush failure")
        elif self.fail_writes_after is not None and self.writes_done >= self.fail_writes_after:
            self.device_failed = True
            self.primary_failed = True
            self.rec.log("dev.write.fail", r.name, value)
            raise HardwareLayerException("sim write failure")
        self.writes_done += 1
        if not self.in_batch:
            self.primary_done = True
        self.mem[r.name] = value
        self.write_log.append((r.name, value, is_flush))
        self.rec.log("dev.write", r.name, value)

    def write_batch(self, values, registers):
        # default implementation (loops write) -> a failing batch is torn after j registers
        self.in_batch = True
        try:
            super().write_batch(values, registers)
        finally:
            self.in_batch = False
            self.primary_done = True

    def connect(self):
        self.calls["connect"] += 1
        if not self.connect_ok:
            self.device_failed = True
            self.rec.log("dev.connect.fail")
            raise HardwareLayerException("sim connect failure")
        if self.reset_on_connect:
            self.mem.clear()
            self.rec.log("dev.reset")
        self.rec.log("dev.connect")
        super().connect()

    def disconnect(self):
        self.calls["disconnect"] += 1
        if getattr(self, "disc_fail", False):
            # closing a connection that is already broken raises in many drivers; reconnect() documents that it goes on
            self.rec.log("dev.disconnect.fail")
            raise HardwareLayerException("sim disconnect failure")
        super().disconnect()


S = hr.ErrorRecoveryState


class SimH(Simulator):
    name = "simh"
    components_real = ["openpectus.engine.hardware_recovery.ErrorRecoveryDecorator", "ErrorRecoveryConfig",
                       "openpectus.engine.hardware.Register", "HardwareLayerBase.read_batch/write_batch/reconnect",
                       "openpectus.lang.exec.tags.Tag (Connection Status)"]
    components_stub = ["device (FaultyDevice: scripted read/write/connect outcomes, torn batches, memory reset)",
                       "clock (hardware_recovery.time, tags.time -> SimClock)"]

    # ------------------------------------------------------------------ generation
    def gen_plan(self, rng: random.Random, profile: str, tier: str) -> dict:
        n = rng.randint(5, 60 if tier == "thorough" else 40)
        self._revert = rng.random() < 0.25     # commanded values may go back to the value they had before the last change
        cfg = {"revert": self._revert, "only_modified": rng.random() < 0.8,
               "initially_connected": rng.random() < 0.5,
               "reconnect_timeout": rng.choice([10, 10, 10, 2, 30]),
               "error_timeout": rng.choice([18000, 18000, 600, 60])}
        faulty = profile != "faultfree"
        ops: list[dict] = []
        if not cfg["initially_connected"]:
            if rng.random() < 0.2 and faulty:
                ops.append({"op": "connect", "ok": 0})
            if rng.random() < 0.9:
                ops.append({"op": "connect", "ok": 1})
        p_fail = rng.choice([0.1, 0.25, 0.5]) if faulty else 0.0
        outage = 0   # remaining ops of a burst outage
        if profile == "engine":
            # engine cadence: tick, read_batch, cycle every 0.1 s, with bursts
            while len(ops) < n:
                if outage == 0 and rng.random() < p_fail / 3:
                    outage = rng.randint(1, 12)
                f = outage > 0
                outage = max(0, outage - 1)
                ops.append({"op": "tick", "n": 1, "ok": int(not f or rng.random() < 0.3), "reset": int(rng.random() < 0.3),
                            "disc_fail": int(faulty and rng.random() < 0.2)})
                ops.append({"op": "read_batch", "regs": READ_REGS, "fail": int(f and rng.random() < 0.8)})
                ops.append(self._gen_cycle(rng, f and rng.random() < 0.8))
                r = rng.random()
                if r < 0.15:
                    ops.append({"op": "advance", "dt": rng.choice(ADVANCES)})
                elif r < 0.25:
                    ops.append({"op": "tick", "n": rng.choice([5, 6, 15, 21, 80]), "ok": int(rng.random() < 0.7),
                                "reset": int(rng.random() < 0.3), "disc_fail": int(faulty and rng.random() < 0.25)})
                else:
                    ops.append({"op": "advance", "dt": 0.1})
                if rng.random() < 0.15:
                    ops.append(self._gen_write(rng, f and rng.random() < 0.5))
            return {"cfg": cfg, "ops": ops[:n + 4]}
        while len(ops) < n:
            if outage == 0 and rng.random() < p_fail / 2:
                outage = rng.randint(1, 8)
            f = (outage > 0 and rng.random() < 0.85) or (faulty and rng.random() < p_fail / 4)
            outage = max(0, outage - 1)
            k = rng.random()
            if k < 0.12:
                ops.append({"op": "read", "r": rng.choice(READ_REGS), "fail": int(f)})
            elif k < 0.24:
                regs = rng.sample(READ_REGS, rng.randint(1, len(READ_REGS)))
                ops.append({"op": "read_batch", "regs": regs, "fail": int(f)})
            elif k < 0.38:
                ops.append(self._gen_write(rng, f))
            elif k < 0.62:
                ops.append(self._gen_cycle(rng, f))
            elif k < 0.80:
                ops.append({"op": "tick", "n": rng.choice([1, 1, 2, 5, 6, 7, 15, 21, 25, 81]),
                            "ok": int(rng.random() < (0.6 if faulty else 1.0)), "reset": int(rng.random() < 0.3),
                            "disc_fail": int(faulty and rng.random() < 0.25)})
            elif k < 0.97:
                ops.append({"op": "advance", "dt": rng.choice(ADVANCES)})
            else:
                ops.append({"op": "connect", "ok": int(rng.random() < 0.8)})
        return {"cfg": cfg, "ops": ops}

    def _gen_cycle(self, rng, fail) -> dict:
        changed = [r for r in WRITE_REGS if rng.random() < 0.45]
        op = {"op": "cycle", "changed": changed, "fail_after": None, "pend_fail": int(rng.random() < 0.15 and bool(fail))}
        if getattr(self, "_revert", False):
            op["revert"] = [r for r in changed if rng.random() < 0.5]
        if fail:
            op["fail_after"] = rng.randint(0, len(WRITE_REGS) - 1)
        return op

    def _gen_write(self, rng, fail) -> dict:
        op = {"op": "write", "r": rng.choice(WRITE_REGS), "new": int(rng.random() < 0.8), "fail": int(bool(fail)),
              "pend_fail": int(rng.random() < 0.1 and bool(fail))}
        if getattr(self, "_revert", False):
            op["revert"] = [op["r"]] if rng.random() < 0.5 else []
        return op

    def shrink(self, plan: dict) -> Iterator[dict]:
        ops = plan["ops"]
        for i, op in enumerate(ops):
            if op["op"] == "tick" and op["n"] > 1:
                for n2 in (1, 6, op["n"] // 2):
                    if n2 < op["n"]:
                        yield dict(plan, ops=ops[:i] + [dict(op, n=n2)] + ops[i + 1:])
            if op["op"] == "cycle" and len(op["changed"]) > 0:
                for j in range(len(op["changed"])):
                    ch = op["changed"][:j] + op["changed"][j + 1:]
                    yield dict(plan, ops=ops[:i] + [dict(op, changed=ch)] + ops[i + 1:])
            if op.get("reset"):
                yield dict(plan, ops=ops[:i] + [dict(op, reset=0)] + ops[i + 1:])
            if op.get("pend_fail"):
                yield dict(plan, ops=ops[:i] + [dict(op, pend_fail=0)] + ops[i + 1:])
            if op.get("disc_fail"):
                yield dict(plan, ops=ops[:i] + [dict(op, disc_fail=0)] + ops[i + 1:])
            if op["op"] == "advance" and op["dt"] != 0.1:
                yield dict(plan, ops=ops[:i] + [dict(op, dt=0.1)] + ops[i + 1:])

    def sample(self, plan: dict) -> Any:
        def short(op):
            o = op["op"]
            if o == "cycle":
                return f"cycle(changed={','.join(op['changed'])},fail_after={op['fail_after']})"
            if o == "write":
                return f"write({op['r']},new={op['new']},fail={op['fail']})"
            if o in ("read",):
                return f"read({op['r']},fail={op['fail']})"
            if o == "read_batch":
                return f"read_batch({','.join(op['regs'])},fail={op['fail']})"
            if o == "tick":
                return f"tick(n={op['n']},reconnect_ok={op['ok']},reset={op['reset']})"
            if o == "advance":
                return f"advance({op['dt']})"
            return f"connect(ok={op['ok']})"
        return {"cfg": plan["cfg"], "ops": [short(o) for o in plan["ops"]]}

    # ------------------------------------------------------------------ execution
    def execute(self, plan: dict, tape: Tape) -> RunResult:
        res = RunResult()
        rec = Recorder()
        clock = SimClock(micro=False)
        tp = TimeProxy(clock)
        with patched((hr, "time", tp), (tags_mod, "time", tp)):
            self._run(plan, res, rec, clock)
        res.digest = rec.digest()
        return res

    def _run(self, plan: dict, res: RunResult, rec: Recorder, clock: SimClock) -> None:
        cfg = plan["cfg"]
        dev = FaultyDevice(rec)
        if cfg["initially_connected"]:
            dev._is_connected = True
        conf = hr.ErrorRecoveryConfig()
        conf.reconnect_timeout_seconds = cfg["reconnect_timeout"]
        conf.error_timeout_seconds = cfg["error_timeout"]
        conf.only_write_modified_values = cfg["only_modified"]
        tag = Tag(SystemTagName.CONNECTION_STATUS, value="Disconnected")
        dec = hr.ErrorRecoveryDecorator(dev, conf, tag)
        regs = dev.registers

        # ---- reference model of the documented protocol (nondeterministic at exact expiry)
        t_last_success = clock.now      # construction time is the implementation's first reference point
        t_issue = clock.now
        t_reconnect = clock.now
        ticks_since_enter = 0           # ticks spent in Reconnect/Error since entering Reconnect
        failed_attempts = 0             # failed reconnect attempts since entering Reconnect
        last_good: dict[str, Any] = {}
        commanded: dict[str, int] = {}  # latest commanded value per output register
        before_last: dict[str, int] = {}   # the value each register had before its last change (revert mode)
        counter = 0
        max_written: dict[str, Any] = {}
        buffered_latest: dict[str, Any] = {}
        wl_pos = 0
        fp: list[str] = []
        saw_fault_then_cycle = False
        had_fault = False

        def vio(prop, kind, site, step, detail):
            res.add(prop, kind, site, step, detail)

        def state():
            return dec.get_recovery_state()

        self._check_status(dec, tag, vio, -1)

        for step, op in enumerate(plan["ops"]):
            o = op["op"]
            pre = state()
            allowed: set = {pre}
            raised: Exception | None = None
            ret: Any = None
            rec.log("op", step, o)
            fp.append(o[0] + str(int(bool(op.get("fail") or op.get("fail_after") is not None or op.get("ok") == 0)))
                      + pre.name[0])

            if o == "advance":
                clock.advance(op["dt"])
                res.sim_seconds += op["dt"]
                continue

            if o == "connect":
                dev.script(connect_ok=bool(op["ok"]))
                if not op["ok"]:
                    res.fault("connect_refused")
                try:
                    dec.connect()
                except HardwareLayerException as e:
                    raised = e
                except Exception as e:
                    raised = e
                    vio("C23", "C23.unexpected_exception", o, step, repr(e))
                if op["ok"]:
                    if pre == S.Disconnected:
                        allowed = {S.OK}
                    if raised is not None:
                        vio("C23", "C23.connect_ok_raised", "connect", step, f"connect raised {raised!r}")
                elif raised is None:
                    vio("C23", "C23.connect_failure_swallowed", "connect", step, "failed connect did not raise")

            elif o in ("read", "read_batch"):
                names = [op["r"]] if o == "read" else list(op["regs"])
                dev.script(fail_reads=bool(op["fail"]))
                if op["fail"]:
                    res.fault("read_fail")
                    had_fault = True
                try:
                    if o == "read":
                        ret = [dec.read(regs[names[0]])]
                    else:
                        ret = dec.read_batch([regs[n] for n in names])
                except HardwareLayerException as e:
                    raised = e
                except Exception as e:  # any other exception is a crash of the recovery layer
                    raised = e
                    vio("C23", "C23.unexpected_exception", o, step, repr(e))
                forwarded = dev.calls["read"] > 0
                ok = forwarded and not dev.device_failed
                if ok:
                    for n in names:
                        last_good[n] = dev.last_returned[n]
                allowed, t_last_success = self._model_rw(pre, ok, clock.now, cfg, t_last_success, t_issue, t_reconnect)
                if pre in (S.Disconnected, S.Error):
                    if not isinstance(raised, HardwareLayerException):
                        vio("C23", "C23.no_raise_in_" + pre.name, o, step, f"returned {ret!r} in state {pre.name}")
                elif raised is not None:
                    vio("C23", "C23.raise_in_" + pre.name, o, step, f"raised {raised!r} in state {pre.name}")
                else:
                    exp = [last_good.get(n) for n in names]
                    if list(ret) != exp:
                        vio("C23", "C23.masked_read_value", pre.name, step,
                            f"read {names} returned {ret!r}, last successfully read values {exp!r}")
                    if not ok:
                        res.probe("masked_read_in_" + pre.name)

            elif o in ("write", "cycle"):
                def change(n):
                    nonlocal counter
                    if n in op.get("revert", []) and n in before_last:
                        commanded[n], before_last[n] = before_last[n], commanded[n]     # back to the previous value
                        res.probe("commanded_value_reverted")
                        return
                    counter += 1
                    if n in commanded:
                        before_last[n] = commanded[n]
                    commanded[n] = counter
                if o == "write":
                    if op["new"] or op["r"] not in commanded:
                        change(op["r"])
                    names = [op["r"]]
                    fail_after = 0 if op["fail"] else None
                else:
                    for n in WRITE_REGS:
                        if n in op["changed"] or n not in commanded:
                            change(n)
                    names = list(WRITE_REGS)
                    fail_after = op["fail_after"]
                # W3 carries ints, the others floats (the filter treats the two differently)
                values = [float(commanded[n]) if n != "W3" else commanded[n] for n in names]
                dev.script(fail_writes_after=fail_after, pend_fail=bool(op.get("pend_fail")))
                if fail_after is not None:
                    had_fault = True
                try:
                    if o == "write":
                        dec.write(values[0], regs[names[0]])
                    else:
                        dec.write_batch(values, [regs[n] for n in names])
                except HardwareLayerException as e:
                    raised = e
                except Exception as e:
                    raised = e
                    vio("C23", "C23.unexpected_exception", o, step, repr(e))
                forwarded = dev.calls["write"] > 0
                if dev.primary_failed:
                    res.fault("write_fail" if fail_after == 0 else "torn_batch_write")
                if dev.device_failed and not dev.primary_failed:
                    res.fault("pending_flush_fail")
                if dev.calls.get("flush"):
                    res.probe("pending_values_flushed", dev.calls["flush"])
                if pre in (S.OK, S.Issue) and not forwarded:
                    allowed = {pre}     # nothing reached the device (all values unchanged): no information
                else:
                    allowed, t_last_success = self._model_rw(pre, not dev.primary_failed, clock.now, cfg,
                                                             t_last_success, t_issue, t_reconnect)
                    if dev.device_failed and not dev.primary_failed:
                        # only the flush of buffered values failed: the layer swallows that; the document is
                        # silent, so both staying and noting an issue are accepted
                        allowed = set(allowed) | {S.Issue}
                if pre in (S.Disconnected, S.Error):
                    if not isinstance(raised, HardwareLayerException):
                        vio("C23", "C23.no_raise_in_" + pre.name, o, step, f"write returned in state {pre.name}")
                elif raised is not None:
                    vio("C23", "C23.raise_in_" + pre.name, o, step, f"raised {raised!r} in state {pre.name}")
                # C24: a buffered value must never reach the device after a newer one
                if raised is None and pre in (S.OK, S.Issue, S.Reconnect) and (dev.primary_failed or pre == S.Reconnect):
                    for n, v in zip(names, values):     # these values were accepted into the buffer
                        buffered_latest[n] = v
                for (n, v, is_flush) in dev.write_log[wl_pos:]:
                    if is_flush:
                        if n in buffered_latest and v != buffered_latest[n]:
                            vio("C24", "C24.flushed_value_not_latest_buffered", n, step,
                                f"buffered value {n}={v} flushed although {n}={buffered_latest[n]} was buffered later")
                    if n in max_written and v < max_written[n] and not cfg.get("revert"):
                        vio("C24", "C24.stale_value_written_after_newer", n, step,
                            f"device received {n}={v} after {n}={max_written[n]} (latest commanded {commanded.get(n)})")
                    max_written[n] = max(v, max_written.get(n, v))
                wl_pos = len(dev.write_log)
                if o == "cycle":
                    if had_fault:
                        saw_fault_then_cycle = True
                    if state() == S.OK and not dev.device_failed and raised is None and pre in (S.OK, S.Issue):
                        res.probe("clean_cycle_checked")
                        if had_fault:
                            res.probe("clean_cycle_after_fault_checked")
                        for n, c in commanded.items():
                            if dev.mem.get(n) != c:
                                vio("C24", "C24.output_not_latest_after_clean_cycle", n, step,
                                    f"after a successful write cycle in state OK device holds {n}={dev.mem.get(n)!r}, "
                                    f"latest commanded {c}")

            elif o == "tick":
                for i in range(op["n"]):
                    pre_i = state()
                    dev.script(connect_ok=bool(op["ok"]), reset=bool(op["reset"]), disc_fail=bool(op.get("disc_fail")))
                    try:
                        dec.tick()
                    except Exception as e:
                        vio("C23", "C23.unexpected_exception", "tick", step, repr(e))
                    # a reconnect attempt is a disconnect (whose failure is ignored, as reconnect() documents) and a connect
                    attempted = dev.calls["connect"] > 0 or dev.calls["disconnect"] > 0
                    if attempted and op.get("disc_fail"):
                        res.fault("disconnect_raises_during_reconnect")
                    if pre_i in (S.Reconnect, S.Error):
                        ticks_since_enter += 1
                        if attempted:
                            res.probe("reconnect_attempt")
                            if op["ok"]:
                                exp_set = {S.OK}
                                if op["reset"]:
                                    res.fault("device_memory_reset_on_reconnect")
                            else:
                                res.fault("reconnect_fail")
                                failed_attempts += 1
                                exp_set = {pre_i}
                        else:
                            exp_set = {pre_i}
                            if pre_i == S.Reconnect and clock.now - t_reconnect >= cfg["error_timeout"]:
                                exp_set = {S.Reconnect, S.Error}   # a tick may or may not notice the expiry
                            if failed_attempts == 0 and ticks_since_enter > 8:
                                vio("C23", "C23.no_reconnect_attempt", pre_i.name, step,
                                    f"{ticks_since_enter} ticks in {pre_i.name} without any reconnect attempt")
                    else:
                        exp_set = {pre_i}
                        if attempted:
                            vio("C23", "C23.reconnect_attempt_outside_reconnect", pre_i.name, step,
                                f"reconnect attempted in state {pre_i.name}")
                    if state() not in exp_set:
                        vio("C23", "C23.bad_transition", f"tick:{pre_i.name}->{state().name}", step,
                            f"tick in {pre_i.name} (reconnect attempted={attempted}, outcome ok={op['ok']}) "
                            f"led to {state().name}, allowed {sorted(s.name for s in exp_set)}")
                    if pre_i != state():
                        res.probe(f"{pre_i.name}->{state().name}")
                    self._check_status(dec, tag, vio, step)
                allowed = {state()}

            # ---- after-op checks
            now_state = state()
            if o != "tick":
                if now_state not in allowed:
                    vio("C23", "C23.bad_transition", f"{o}:{pre.name}->{now_state.name}", step,
                        f"{o} in {pre.name} (device failed={dev.device_failed}, since last success="
                        f"{clock.now - t_last_success:.1f}s, since issue={clock.now - t_issue:.1f}s, since reconnect="
                        f"{clock.now - t_reconnect:.1f}s) led to {now_state.name}, "
                        f"allowed {sorted(s.name for s in allowed)}")
                if pre != now_state:
                    res.probe(f"{pre.name}->{now_state.name}")
                    if now_state == S.Reconnect:
                        ticks_since_enter = 0
                        failed_attempts = 0
                        t_reconnect = clock.now
                    if now_state == S.Issue:
                        t_issue = clock.now
                self._check_status(dec, tag, vio, step)
            rec.log("state", now_state.name, tag.get_value(), sorted(dev.mem.items()), len(dec.pending_writes))
            res.state(now_state.name, min(len(dec.pending_writes), 4), min(len(dec.last_success_writes), 4),
                      _bucket(clock.now - t_last_success))
            res.steps += 1

        # bounded liveness once faults stop: with a healthy device the connection is back after the first
        # back-off window if no attempt failed yet, and in any case after the longest back-off period
        if state() in (S.Reconnect, S.Error):
            st0 = state()
            budget = (8 - ticks_since_enter) if (failed_attempts == 0 and ticks_since_enter <= 8) else 18001
            n = 0
            while n < budget and state() != S.OK:
                dev.script(connect_ok=True)
                dec.tick()
                n += 1
            res.probe("liveness_tail")
            if state() != S.OK:
                vio("C23", "C23.no_recovery_after_faults_stop", st0.name, len(plan["ops"]),
                    f"healthy device, still {state().name} after {n} more ticks (failed attempts before: {failed_attempts})")
            self._check_status(dec, tag, vio, len(plan["ops"]))
            rec.log("tail", state().name, tag.get_value(), n)

        res.fingerprint = stable_hash(fp)
        res.nontrivial = saw_fault_then_cycle or (had_fault and res.steps >= 5)

    @staticmethod
    def _check_status(dec, tag, vio, step):
        want_disc = dec.state in (S.Disconnected, S.Error)
        is_disc = tag.get_value() == "Disconnected"
        if want_disc != is_disc:
            vio("C23", "C23.connection_status_mismatch", dec.state.name, step,
                f"state {dec.state.name} but Connection Status = {tag.get_value()!r}")

    @staticmethod
    def _model_rw(pre, ok, now, cfg, t_last_success, t_issue, t_reconnect):
        """Allowed successor states of a read/write operation according to the documented protocol.
        ok: the device call succeeded (in Reconnect nothing is forwarded: the operation counts as masked error)."""
        allowed = {pre}
        if pre == S.OK:
            if ok:
                t_last_success = now
            else:
                allowed = {S.Issue}
        elif pre == S.Issue:
            if ok:
                allowed = {S.OK}
                t_last_success = now
            else:
                rt = cfg["reconnect_timeout"]
                if now - t_last_success < rt:
                    allowed = {S.Issue}          # no timeout has expired under either reading of the document
                elif now - t_issue > rt:
                    allowed = {S.Reconnect}      # expired under both readings
                else:
                    allowed = {S.Issue, S.Reconnect}
        elif pre == S.Reconnect:
            et = cfg["error_timeout"]
            d = now - t_reconnect
            if d > et + 1e-3:
                allowed = {S.Error}
            elif d < et:
                allowed = {S.Reconnect}
            else:
                allowed = {S.Reconnect, S.Error}
        return allowed, t_last_success


def _bucket(x: float) -> int:
    for i, b in enumerate([0.05, 1, 9.9, 10.1, 100, 3600, 17999, 18001]):
        if x <= b:
            return i
    return 9
