"""Virtual-time asyncio event loop: timers cost nothing, the clock jumps to the next timer when nothing is
runnable. The ready queue stays FIFO; all nondeterminism enters through simulated I/O latencies and faults."""
from __future__ import annotations

import asyncio
import selectors

from .core import HarnessError


class _NullSelector(selectors.SelectSelector):
    """Never waits on real file descriptors: 'waiting' advances the loop's virtual clock instead."""

    def __init__(self, loop_ref):
        super().__init__()
        self._loop_ref = loop_ref

    def select(self, timeout=None):
        loop = self._loop_ref[0]
        if timeout is None:
            # nothing scheduled and nothing ready: the simulated system is dead-locked / finished
            loop._deadlocked = True
            loop.stop()
            return []
        if timeout > 0:
            loop._vtime += timeout
        return []


class VirtualLoop(asyncio.SelectorEventLoop):
    def __init__(self) -> None:
        self._ref = [None]
        super().__init__(selector=_NullSelector(self._ref))
        self._ref[0] = self
        self._vtime = 0.0
        self._deadlocked = False
        self.steps = 0
        self.max_steps = 2_000_000

    def time(self) -> float:
        return self._vtime

    def _run_once(self):
        self.steps += 1
        if self.steps > self.max_steps:
            raise HarnessError("virtual loop step cap exceeded")
        super()._run_once()

    def run_until_time(self, t: float) -> None:
        """Run until virtual time t (or until nothing is left to run)."""
        async def _sleep():
            await asyncio.sleep(max(0.0, t - self._vtime))
        self.run_until_complete(_sleep())


def new_loop() -> VirtualLoop:
    loop = VirtualLoop()
    asyncio.set_event_loop(loop)
    return loop


def close_loop(loop: VirtualLoop) -> None:
    try:
        pending = [t for t in asyncio.all_tasks(loop) if not t.done()]
        for t in pending:
            t.cancel()
        if pending:
            loop.run_until_complete(asyncio.gather(*pending, return_exceptions=True))
    except Exception:
        pass
    finally:
        try:
            loop.close()
        finally:
            asyncio.set_event_loop(None)
