"""Core types: seeds, decision tape, violations, run results.

One integer decides everything: run i of check P at tier T uses
seed_i = blake2b(VERIF_SEED, P, T, i).  A run first generates a *plan* (pure function of
seed_i) and then executes it.  Choices that can only be made while running go through
Tape.draw(), which records them; a replay reads plan+tape and never touches a PRNG.
"""
from __future__ import annotations

import hashlib
import json
import os
import random
import sys
from dataclasses import dataclass, field
from typing import Any

VERIF_ROOT = os.path.dirname(os.path.dirname(os.path.abspath(__file__)))


def repo_root() -> str:
    return os.environ.get("VERIF_REPO", "/repo")


def setup_repo_path() -> None:
    """Make `import openpectus` resolve to the tree under test (default /repo)."""
    root = repo_root()
    if sys.path[0] != root:
        sys.path.insert(0, root)
    os.environ.setdefault("OPEN_PECTUS_VERIF", "1")
    mod = sys.modules.get("openpectus")
    if mod is not None:
        f = os.path.abspath(getattr(mod, "__file__", "") or "")
        if not f.startswith(os.path.abspath(root) + os.sep):
            raise HarnessError(f"openpectus already imported from {f}, expected under {root}")


class HarnessError(Exception):
    """The machinery failed (not the system under test). Exit code 2, never a VIOLATION."""


def derive_seed(base: int, prop: str, tier: str, index: int, salt: str = "") -> int:
    h = hashlib.blake2b(f"{base}|{prop}|{tier}|{index}|{salt}".encode(), digest_size=8)
    return int.from_bytes(h.digest(), "big")


def stable_hash(obj: Any) -> str:
    return hashlib.blake2b(json.dumps(obj, sort_keys=True, default=repr).encode(), digest_size=8).hexdigest()


class Tape:
    """Decision tape. In record mode draws come from a PRNG seeded by the run seed and are
    appended; in replay mode they are read back (exhausted tape -> 0)."""

    def __init__(self, seed: int | None = None, values: list[int] | None = None):
        self.replay = values is not None
        self.values: list[int] = list(values) if values is not None else []
        self.pos = 0
        self._rng = random.Random(seed) if not self.replay else None

    def draw(self, label: str, n: int) -> int:
        """An integer in [0, n)."""
        if n <= 1:
            return 0
        if self.replay:
            if self.pos < len(self.values):
                v = self.values[self.pos] % n
            else:
                v = 0
            self.pos += 1
            return v
        assert self._rng is not None
        v = self._rng.randrange(n)
        self.values.append(v)
        self.pos += 1
        return v

    def chance(self, label: str, permille: int) -> bool:
        return self.draw(label, 1000) < permille


@dataclass
class Violation:
    property: str
    kind: str
    site: str
    step: int
    detail: str

    def key(self) -> tuple[str, str, str]:
        return (self.property, self.kind, self.site)

    def to_json(self) -> dict:
        return {"property": self.property, "kind": self.kind, "site": self.site, "step": self.step,
                "detail": self.detail}


@dataclass
class RunResult:
    violations: list[Violation] = field(default_factory=list)
    digest: str = ""
    faults: dict[str, int] = field(default_factory=dict)     # fault kind -> times actually fired
    probes: dict[str, int] = field(default_factory=dict)     # "rare branch hit" counters
    states: set[str] = field(default_factory=set)            # abstract state hashes reached
    fingerprint: str = ""                                    # schedule fingerprint
    sim_seconds: float = 0.0
    steps: int = 0
    nontrivial: bool = False
    tape: list[int] = field(default_factory=list)
    harness_error: str | None = None

    def add(self, prop: str, kind: str, site: str, step: int, detail: str) -> None:
        # one record per (property, kind, site) per run keeps results small
        for v in self.violations:
            if v.property == prop and v.kind == kind and v.site == site:
                return
        self.violations.append(Violation(prop, kind, site, step, detail[:600]))

    def fault(self, kind: str, n: int = 1) -> None:
        self.faults[kind] = self.faults.get(kind, 0) + n

    def probe(self, name: str, n: int = 1) -> None:
        self.probes[name] = self.probes.get(name, 0) + n

    def state(self, *abstract: Any) -> None:
        if len(self.states) < 4000:
            self.states.add(stable_hash(abstract))


class Recorder:
    """Event log of one run; its digest is the determinism witness."""

    def __init__(self) -> None:
        self._h = hashlib.blake2b(digest_size=12)
        self.n = 0
        self.keep: list[str] | None = None

    def log(self, *parts: Any) -> None:
        s = "|".join(_fmt(p) for p in parts)
        self._h.update(s.encode("utf-8", "backslashreplace"))
        self._h.update(b"\n")
        self.n += 1
        if self.keep is not None:
            self.keep.append(s)

    def digest(self) -> str:
        return self._h.hexdigest()


def _fmt(p: Any) -> str:
    if isinstance(p, float):
        return f"{p:.9g}"
    if isinstance(p, (set, frozenset)):
        return "{" + ",".join(sorted(_fmt(x) for x in p)) + "}"
    if isinstance(p, dict):
        return "{" + ",".join(f"{_fmt(k)}:{_fmt(v)}" for k, v in sorted(p.items(), key=lambda kv: _fmt(kv[0]))) + "}"
    if isinstance(p, (list, tuple)):
        return "[" + ",".join(_fmt(x) for x in p) + "]"
    return str(p)
