#!/venv/bin/python
"""Command line of the verification machinery.

  cli.py check <ID> [--tier quick|thorough] [--runs N] [--replay FILE]
  cli.py replay FILE [--json]
  cli.py selftest determinism [--props C23,C24] [--seeds N]
  cli.py one <ID> --index I [--tier T]     (debug: run a single generated case verbosely)

Exit codes: 0 property held on everything explored; 1 VIOLATION; 2 HARNESS-ERROR.
"""
from __future__ import annotations

import argparse
import json
import logging
import os
import sys

HERE = os.path.dirname(os.path.abspath(__file__))
ROOT = os.path.dirname(HERE)


def _reexec_with_fixed_hashseed() -> None:
    if os.environ.get("VERIF_NO_REEXEC") == "1":
        return
    if os.environ.get("PYTHONHASHSEED") != "0":
        env = dict(os.environ)
        env["PYTHONHASHSEED"] = "0"
        os.execve(sys.executable, [sys.executable] + sys.argv, env)


def main() -> int:
    _reexec_with_fixed_hashseed()
    if ROOT not in sys.path:
        sys.path.insert(0, ROOT)
    from simcore.core import setup_repo_path
    setup_repo_path()
    logging.disable(logging.CRITICAL)

    ap = argparse.ArgumentParser()
    sub = ap.add_subparsers(dest="cmd", required=True)
    c = sub.add_parser("check")
    c.add_argument("property")
    c.add_argument("--tier", default=os.environ.get("VERIF_TIER", "quick"), choices=["quick", "thorough"])
    c.add_argument("--runs", type=int, default=None)
    c.add_argument("--replay", default=None)
    c.add_argument("--no-evidence", action="store_true")
    r = sub.add_parser("replay")
    r.add_argument("path")
    r.add_argument("--json", action="store_true")
    r.add_argument("--verbose", action="store_true")
    s = sub.add_parser("selftest")
    s.add_argument("what", choices=["determinism", "seams"])
    s.add_argument("--props", default=None)
    s.add_argument("--seeds", type=int, default=40)
    o = sub.add_parser("one")
    o.add_argument("property")
    o.add_argument("--index", type=int, default=0)
    o.add_argument("--tier", default="quick")
    o.add_argument("--profile", default=None)
    sv = sub.add_parser("survey")
    sv.add_argument("property")
    sv.add_argument("--runs", type=int, default=500)
    sv.add_argument("--tier", default="quick")
    sv.add_argument("--profile", default=None)
    args = ap.parse_args()

    from simcore import driver
    from simcore.core import HarnessError
    base_seed = int(os.environ.get("VERIF_SEED", "0") or 0)

    try:
        if args.cmd == "check":
            if args.replay:
                return _replay(args.replay, False, True)
            from sims import registry
            spec = registry.get_spec(args.property)
            return driver.run_check(spec, args.tier, base_seed, runs_override=args.runs,
                                    write_evidence=not args.no_evidence)
        if args.cmd == "replay":
            return _replay(args.path, args.json, args.verbose)
        if args.cmd == "selftest":
            from simcore import selftest
            if args.what == "determinism":
                return selftest.determinism(args.props.split(",") if args.props else None, args.seeds, base_seed)
            return selftest.seams()
        if args.cmd == "one":
            return _one(args, base_seed)
        if args.cmd == "survey":
            return _survey(args, base_seed)
    except HarnessError as e:
        print(f"HARNESS-ERROR {e}")
        return 2
    return 2


def _replay(path: str, as_json: bool, verbose: bool) -> int:
    from simcore import driver
    doc, res, hit = driver.run_replay(path)
    exp = doc["expect"]
    if as_json:
        print("REPLAY-JSON " + json.dumps({"hit": hit, "digest": res.digest, "harness_error": res.harness_error,
                                          "violations": [v.to_json() for v in res.violations]}))
        return 1 if hit else 0
    if res.harness_error:
        print("HARNESS-ERROR " + res.harness_error)
        return 2
    print(f"REPLAY {path}: expect {exp['property']} {exp['kind']} site={exp['site']}")
    for v in res.violations:
        print(f"  observed {v.property} {v.kind} site={v.site} step={v.step}: {v.detail}")
    print(f"  digest {res.digest} (recorded {exp.get('digest')})")
    if hit:
        print(f"VIOLATION property={exp['property']} replay={path}")
        return 1
    print("not reproduced")
    return 0


def _survey(args, base_seed: int) -> int:
    """Development aid: tabulate every (property, kind, site) signalled over a batch, for all properties."""
    import concurrent.futures as cf
    import multiprocessing
    from simcore import driver
    from simcore.core import derive_seed
    from sims import registry
    spec = registry.get_spec(args.property)
    driver.get_sim(spec.sim)
    profiles = [args.profile] if args.profile else spec.profiles
    jobs = [(spec.sim, profiles[i % len(profiles)], args.tier, derive_seed(base_seed, spec.property, args.tier, i),
             spec.run_timeout, i) for i in range(args.runs)]
    counts: dict = {}
    first: dict = {}
    herr = 0
    with cf.ProcessPoolExecutor(max_workers=16, mp_context=multiprocessing.get_context("fork")) as pool:
        for r in pool.map(driver._worker, jobs, chunksize=8):
            if r["harness_error"]:
                herr += 1
                if herr <= 3:
                    print("HARNESS", r["index"], r["harness_error"][-1500:])
            for v in r["violations"]:
                k = (v["property"], v["kind"], v["site"])
                counts[k] = counts.get(k, 0) + 1
                first.setdefault(k, (r["index"], v["detail"]))
    for k in sorted(counts):
        print(f"{counts[k]:6d}  {k[0]} {k[1]} site={k[2]}  first=#{first[k][0]}: {first[k][1][:160]}")
    print(f"{args.runs} runs, {herr} harness errors")
    return 0


def _one(args, base_seed: int) -> int:
    import random
    from simcore import driver
    from simcore.core import derive_seed
    from sims import registry
    spec = registry.get_spec(args.property)
    sim = driver.get_sim(spec.sim)
    prof = args.profile or spec.profiles[args.index % len(spec.profiles)]
    seed = derive_seed(base_seed, spec.property, args.tier, args.index)
    plan = sim.gen_plan(random.Random(seed), prof, args.tier)
    print(json.dumps(sim.sample(plan), indent=1, default=repr))
    os.environ["VERIF_VERBOSE"] = "1"
    res = driver.execute_plan(sim, plan, None, seed, 120)
    print("digest", res.digest, "steps", res.steps, "sim_s", res.sim_seconds, "nontrivial", res.nontrivial)
    print("faults", res.faults)
    print("probes", res.probes)
    if res.harness_error:
        print("HARNESS-ERROR", res.harness_error)
    for v in res.violations:
        print("VIOL", v.property, v.kind, v.site, v.step, v.detail)
    return 0


if __name__ == "__main__":
    _rc = main()
    # skip interpreter finalisation: abandoned engine generators print "Exception ignored" noise at shutdown
    sys.stdout.flush()
    sys.stderr.flush()
    os._exit(_rc if isinstance(_rc, int) else 0)
