"""Simulated clock and drop-in proxies for the `time` / `datetime` module attributes of repo modules."""
from __future__ import annotations

import datetime as _dt
import time as _real_time

T0 = 1_700_000_000.0


class SimClock:
    """Simulated wall clock. `now` is set by the simulator; every read inside a step returns
    now + 1e-6*n so that stamps taken inside a step are ordered and stay inside the step."""

    def __init__(self, start: float = T0, micro: bool = True):
        self.now = start
        self.micro = micro
        self._n = 0

    def set(self, t: float) -> None:
        self.now = t
        self._n = 0

    def advance(self, dt: float) -> None:
        self.now += dt
        self._n = 0

    def read(self) -> float:
        if not self.micro:
            return self.now
        self._n += 1
        return self.now + 1e-6 * min(self._n, 9000)


class TimeProxy:
    """Replaces a module-level `time` name. Only the functions the repo uses."""

    def __init__(self, clock: SimClock, on_sleep=None):
        self._clock = clock
        self._on_sleep = on_sleep
        self.struct_time = _real_time.struct_time

    def time(self) -> float:
        return self._clock.read()

    def monotonic(self) -> float:
        return self._clock.read()

    def perf_counter(self) -> float:
        return self._clock.read()

    def time_ns(self) -> int:
        return int(self._clock.read() * 1e9)

    def sleep(self, s: float) -> None:
        if self._on_sleep is not None:
            self._on_sleep(s)
        else:
            self._clock.advance(max(0.0, s))

    def strftime(self, fmt, t=None):
        return _real_time.strftime(fmt, t if t is not None else _real_time.gmtime(self._clock.now))

    def gmtime(self, secs=None):
        return _real_time.gmtime(self._clock.now if secs is None else secs)

    def localtime(self, secs=None):
        return _real_time.gmtime(self._clock.now if secs is None else secs)


def make_datetime_proxy(clock: SimClock):
    """A datetime subclass whose now()/utcnow()/today() read the simulated clock."""

    class SimDateTime(_dt.datetime):
        @classmethod
        def now(cls, tz=None):
            base = _dt.datetime.fromtimestamp(clock.read(), _dt.timezone.utc)
            if tz is None:
                return cls(base.year, base.month, base.day, base.hour, base.minute, base.second, base.microsecond)
            return cls.fromtimestamp(clock.read(), tz)

        @classmethod
        def utcnow(cls):
            return cls.now()

        @classmethod
        def today(cls):
            return cls.now()

    return SimDateTime


class patched:
    """Context manager: set attributes on modules/objects, restore on exit."""

    def __init__(self, *triples):
        self.triples = triples
        self.saved = []

    def __enter__(self):
        for obj, name, val in self.triples:
            self.saved.append((obj, name, getattr(obj, name, _MISSING)))
            setattr(obj, name, val)
        return self

    def __exit__(self, *exc):
        for obj, name, old in reversed(self.saved):
            if old is _MISSING:
                try:
                    delattr(obj, name)
                except AttributeError:
                    pass
            else:
                setattr(obj, name, old)
        self.saved.clear()
        return False


_MISSING = object()
