"""Self-tests of the machinery: determinism across processes / hash seeds, seam inventory."""
from __future__ import annotations

import json
import os
import random
import subprocess
import sys

from .core import VERIF_ROOT, derive_seed, repo_root


def _digests(props: list[str], seeds: int, base_seed: int) -> dict:
    from . import driver
    from sims import registry
    out = {}
    for p in props:
        spec = registry.get_spec(p)
        sim = driver.get_sim(spec.sim)
        for i in range(seeds):
            prof = spec.profiles[i % len(spec.profiles)]
            s = derive_seed(base_seed, p, "selftest", i)
            plan = sim.gen_plan(random.Random(s), prof, "quick")
            r = driver.execute_plan(sim, plan, None, s, 120)
            out[f"{p}/{i}"] = [r.digest, [v.to_json() for v in r.violations], r.harness_error]
    return out


def determinism(props: list[str] | None, seeds: int, base_seed: int) -> int:
    from sims import registry
    props = props or sorted(registry.SPECS)
    if os.environ.get("VERIF_SELFTEST_CHILD") == "1":
        print("DIGESTS " + json.dumps(_digests(props, seeds, base_seed)))
        return 0
    a = _digests(props, seeds, base_seed)
    b = _digests(props, seeds, base_seed)      # same process, second execution
    bad = [k for k in a if a[k] != b[k]]
    for hs in ("1", "12345"):
        env = dict(os.environ, PYTHONHASHSEED=hs, VERIF_NO_REEXEC="1", VERIF_SELFTEST_CHILD="1")
        p = subprocess.run([sys.executable, os.path.join(VERIF_ROOT, "simcore", "cli.py"), "selftest", "determinism",
                            "--props", ",".join(props), "--seeds", str(seeds)], env=env, capture_output=True,
                           text=True)
        line = next((ln for ln in p.stdout.splitlines() if ln.startswith("DIGESTS ")), None)
        if line is None:
            print("HARNESS-ERROR child produced no digests", p.stdout[-2000:], p.stderr[-2000:])
            return 2
        c = json.loads(line[8:])
        bad += [k for k in a if a[k] != c.get(k)]
    herr = [k for k in a if a[k][2]]
    print(f"determinism: {len(a)} runs x (2 in-process + 2 fresh interpreters with PYTHONHASHSEED=1,12345): "
          f"{len(set(bad))} mismatches, {len(herr)} harness errors")
    for k in sorted(set(bad))[:10]:
        print("  MISMATCH", k)
    for k in herr[:5]:
        print("  HARNESS", k, a[k][2][:300])
    return 2 if bad or herr else 0


# modules of the repo that read wall-clock time, random or uuid, and what each simulator does about them
PATCHED_OR_WHITELISTED = {
}


def seams() -> int:
    """Grep /repo/openpectus for sources of nondeterminism and compare with the inventory."""
    import re
    from sims import seam_inventory
    root = os.path.join(repo_root(), "openpectus")
    pat = re.compile(r"^\s*(import (time|random|uuid|datetime)\b|from (time|random|uuid|datetime) import)", re.M)
    found = {}
    for d, _, files in os.walk(root):
        if "/test" in d or "frontend" in d:
            continue
        for f in files:
            if f.endswith(".py"):
                p = os.path.join(d, f)
                try:
                    txt = open(p, encoding="utf-8").read()
                except Exception:
                    continue
                if pat.search(txt):
                    rel = os.path.relpath(p, repo_root())
                    found[rel] = sorted({m.group(2) or m.group(3) for m in pat.finditer(txt)})
    unknown = [k for k in found if k not in seam_inventory.HANDLED and k not in seam_inventory.NOT_LOADED]
    print(f"seams: {len(found)} modules import time/random/uuid/datetime; {len(unknown)} not in the inventory")
    for k in unknown:
        print("  UNKNOWN", k, found[k])
    return 2 if unknown else 0
