"""Seeded search driver: pool, known findings, minimisation, replay files, evidence."""
from __future__ import annotations

import concurrent.futures as cf
import copy
import faulthandler
import json
import multiprocessing
import os
import random
import re
import signal
import subprocess
import sys
import time
import traceback
from dataclasses import dataclass, field
from typing import Any, Callable, Iterator

from .core import (HarnessError, RunResult, Tape, Violation, VERIF_ROOT, derive_seed, repo_root, stable_hash)

REPLAY_DIR = os.path.join(VERIF_ROOT, "replays")
EVIDENCE_DIR = os.path.join(VERIF_ROOT, "evidence")
KNOWN_FILE = os.path.join(VERIF_ROOT, "known_findings.json")
WITNESS_DIR = os.path.join(VERIF_ROOT, "witnesses")


class Simulator:
    """Interface every simulator implements."""
    name = "sim"
    components_real: list[str] = []
    components_stub: list[str] = []

    def gen_plan(self, rng: random.Random, profile: str, tier: str) -> dict:
        raise NotImplementedError

    def execute(self, plan: dict, tape: Tape) -> RunResult:
        raise NotImplementedError

    def shrink(self, plan: dict) -> Iterator[dict]:
        """Structural shrink candidates beyond ddmin over plan['ops']."""
        return iter(())

    def sample(self, plan: dict) -> Any:
        """Compact rendering of a plan for the evidence file."""
        return plan

    def prepare(self, profiles: list[str]) -> None:
        """Called once in the parent before workers are forked (import what the profiles need lazily)."""


@dataclass
class CheckSpec:
    property: str
    sim: str                       # simulator registry key
    profiles: list[str]            # run i uses profiles[i % len]
    runs_quick: int
    runs_thorough: int
    level: str                     # exploration | fault_enumeration
    rule: str                      # how cases are generated / what makes one non-trivial
    assumptions: list[str] = field(default_factory=list)
    wall_quick: float = 45.0
    wall_thorough: float = 900.0
    run_timeout: float = 60.0


_SIMS: dict[str, Simulator] = {}


def get_sim(name: str) -> Simulator:
    if name not in _SIMS:
        from sims import registry
        _SIMS[name] = registry.make_sim(name)
    return _SIMS[name]


class _Timeout(Exception):
    pass


def _alarm(signum, frame):  # pragma: no cover
    raise _Timeout()


def execute_plan(sim: Simulator, plan: dict, tape_values: list[int] | None, seed: int, timeout: float) -> RunResult:
    tape = Tape(seed=seed ^ 0x5EED, values=tape_values)
    old = signal.signal(signal.SIGALRM, _alarm)
    signal.setitimer(signal.ITIMER_REAL, timeout)
    try:
        res = sim.execute(plan, tape)
    except _Timeout:
        res = RunResult()
        res.harness_error = f"run exceeded {timeout}s wall"
    except HarnessError as e:
        res = RunResult()
        res.harness_error = f"HarnessError: {e}\n{traceback.format_exc()}"
    except Exception as e:  # a bug in the harness itself: report, never count as violation
        res = RunResult()
        res.harness_error = f"{type(e).__name__}: {e}\n{traceback.format_exc()}"
    finally:
        signal.setitimer(signal.ITIMER_REAL, 0)
        signal.signal(signal.SIGALRM, old)
    res.tape = list(tape.values)
    return res


def _worker(args: tuple) -> dict:
    sim_name, profile, tier, seed, timeout, index = args
    sim = get_sim(sim_name)
    rng = random.Random(seed)
    plan = sim.gen_plan(rng, profile, tier)
    res = execute_plan(sim, plan, None, seed, timeout)
    out = {
        "index": index, "seed": seed, "profile": profile, "digest": res.digest,
        "violations": [v.to_json() for v in res.violations],
        "faults": res.faults, "probes": res.probes, "states": list(res.states),
        "fingerprint": res.fingerprint, "sim_seconds": res.sim_seconds, "steps": res.steps,
        "nontrivial": res.nontrivial, "harness_error": res.harness_error,
    }
    if res.violations or index < 3:
        out["plan"] = plan
        out["tape"] = res.tape
    return out


def _worker_init():
    faulthandler.enable()


# ---------------------------------------------------------------- known findings

def load_known() -> list[dict]:
    if not os.path.exists(KNOWN_FILE):
        return []
    with open(KNOWN_FILE) as f:
        return json.load(f)["findings"]


def known_match(entries: list[dict], v: dict) -> dict | None:
    for e in entries:
        if e.get("status") != "known":
            continue
        if e["property"] != v["property"] or e["kind"] != v["kind"]:
            continue
        if re.fullmatch(e.get("site_pattern", ".*"), v["site"]):
            return e
    return None


# ---------------------------------------------------------------- replay files

def write_replay(path: str, spec: CheckSpec, profile: str, seed: int, plan: dict, tape: list[int],
                 v: dict, digest: str) -> None:
    os.makedirs(os.path.dirname(path), exist_ok=True)
    doc = {"format": 1, "property": spec.property, "simulator": spec.sim, "profile": profile, "seed": seed,
           "plan": plan, "tape": tape,
           "expect": {"property": v["property"], "kind": v["kind"], "site": v["site"], "step": v["step"],
                      "detail": v["detail"], "digest": digest}}
    with open(path, "w") as f:
        json.dump(doc, f, indent=1, sort_keys=True)
        f.write("\n")


def run_replay(path: str, timeout: float = 120.0) -> tuple[dict, RunResult, bool]:
    with open(path) as f:
        doc = json.load(f)
    sim = get_sim(doc["simulator"])
    res = execute_plan(sim, doc["plan"], doc["tape"], doc.get("seed", 0), timeout)
    exp = doc["expect"]
    hit = any(v.property == exp["property"] and v.kind == exp["kind"] and v.site == exp["site"]
              for v in res.violations)
    return doc, res, hit


def replay_in_fresh_interpreter(path: str, hashseed: str = "7") -> dict:
    env = dict(os.environ)
    env["PYTHONHASHSEED"] = hashseed
    env["VERIF_NO_REEXEC"] = "1"
    p = subprocess.run([sys.executable, os.path.join(VERIF_ROOT, "simcore", "cli.py"), "replay", path, "--json"],
                       env=env, capture_output=True, text=True, timeout=300)
    for line in p.stdout.splitlines():
        if line.startswith("REPLAY-JSON "):
            return json.loads(line[len("REPLAY-JSON "):])
    raise HarnessError(f"fresh-interpreter replay produced no result: rc={p.returncode}\n{p.stdout}\n{p.stderr}")


# ---------------------------------------------------------------- minimisation

def minimise(sim: Simulator, plan: dict, tape: list[int], seed: int, key: tuple[str, str, str],
             timeout: float, budget: int = 300, wall: float = 150.0) -> tuple[dict, list[int], int]:
    """ddmin over plan['ops'], then structural candidates from sim.shrink, then zeroing the tape.
    A candidate is accepted only if it still yields the same (property, kind, site)."""
    t0 = time.time()
    used = 0

    def fails(p: dict, tp: list[int]) -> bool:
        nonlocal used
        used += 1
        r = execute_plan(sim, p, tp, seed, timeout)
        return r.harness_error is None and any(v.key() == key for v in r.violations)

    def out_of_budget() -> bool:
        return used >= budget or time.time() - t0 > wall

    cur = copy.deepcopy(plan)
    ops = cur.get("ops")
    if isinstance(ops, list) and len(ops) > 1:
        n = 2
        while len(ops) >= 2 and not out_of_budget():
            chunk = max(1, len(ops) // n)
            reduced = False
            for i in range(0, len(ops), chunk):
                cand_ops = ops[:i] + ops[i + chunk:]
                cand = dict(cur, ops=cand_ops)
                if fails(cand, tape):
                    ops = cand_ops
                    cur = cand
                    n = max(n - 1, 2)
                    reduced = True
                    break
                if out_of_budget():
                    break
            if not reduced:
                if chunk == 1:
                    break
                n = min(len(ops), n * 2)
    progress = True
    while progress and not out_of_budget():
        progress = False
        for cand in sim.shrink(cur):
            if out_of_budget():
                break
            if fails(cand, tape):
                cur = cand
                progress = True
                break
    if tape and not out_of_budget():
        if fails(cur, []):
            tape = []
    return cur, tape, used


# ---------------------------------------------------------------- main check loop

@dataclass
class Outcome:
    exit_code: int
    lines: list[str]


def run_check(spec: CheckSpec, tier: str, base_seed: int, workers: int | None = None,
              runs_override: int | None = None, write_evidence: bool = True) -> int:
    t_start = time.time()
    sim = get_sim(spec.sim)          # import in the parent so forked workers share it
    sim.prepare(spec.profiles)
    n_runs = runs_override or (spec.runs_quick if tier == "quick" else spec.runs_thorough)
    wall_cap = spec.wall_quick if tier == "quick" else spec.wall_thorough
    if os.environ.get("VERIF_WALL"):
        wall_cap = float(os.environ["VERIF_WALL"])
    workers = workers or int(os.environ.get("VERIF_WORKERS", "0")) or min(16, os.cpu_count() or 1)
    known = [e for e in load_known()]
    known_here = [e for e in known if e["property"] == spec.property and e.get("status") == "known"]

    print(f"CHECK property={spec.property} tier={tier} VERIF_SEED={base_seed} sim={spec.sim} "
          f"profiles={','.join(spec.profiles)} runs={n_runs} workers={workers} repo={repo_root()}", flush=True)

    ctx = multiprocessing.get_context("fork")
    harness_errors: list[str] = []
    known_hits: dict[str, int] = {}
    known_lines: list[str] = []

    with cf.ProcessPoolExecutor(max_workers=workers, mp_context=ctx, initializer=_worker_init) as pool:
        # 1. committed witnesses of listed findings
        for e in known_here:
            wpath = os.path.join(VERIF_ROOT, e["witness"])
            try:
                fut = pool.submit(_replay_worker, wpath)
                hit, herr = fut.result(timeout=300)
            except Exception as ex:  # noqa
                hit, herr = False, f"{type(ex).__name__}: {ex}"
            if herr:
                harness_errors.append(f"witness {e['witness']}: {herr}")
            elif hit:
                known_lines.append(f"KNOWN-FINDING: property={e['property']} {e['kind']} site={e['site_pattern']} "
                                   f"{e['what']} (witness {e['witness']})")
            else:
                known_lines.append(f"NOTE: listed finding {e['kind']} did not reproduce from {e['witness']} "
                                   f"(fixed?); it no longer suppresses by witness but the pattern stays listed")
        for ln in known_lines:
            print(ln, flush=True)

        # 1b. regression: the committed witnesses of repaired defects (status=fixed) must not reproduce. A fixed entry
        # suppresses nothing: if its violation is back, it is reported with the witness as the replay file
        regressions: list[str] = []
        fixed_here = [e for e in known if e["property"] == spec.property and e.get("status") == "fixed" and e.get("witness")]
        futs = []
        for e in fixed_here:
            wpath = os.path.join(VERIF_ROOT, e["witness"])
            if os.path.exists(wpath):
                futs.append((e, wpath, pool.submit(_replay_worker, wpath)))
        for e, wpath, fut in futs:
            try:
                hit, herr = fut.result(timeout=300)
            except Exception as ex:  # noqa
                hit, herr = False, f"{type(ex).__name__}: {ex}"
            if herr:
                harness_errors.append(f"witness {e['witness']}: {herr}")
            elif hit:
                print(f"  repaired defect is back: {e['kind']} ({e.get('commit')}): {e['what'][:200]}", flush=True)
                regressions.append(wpath)

        # 2. miniature determinism self-test: first seeds twice, in two different worker processes
        n_det = min(4, n_runs)
        jobs = []
        for i in range(n_det):
            prof = spec.profiles[i % len(spec.profiles)]
            s = derive_seed(base_seed, spec.property, tier, i)
            jobs.append((spec.sim, prof, tier, s, spec.run_timeout, i))
        a = list(pool.map(_worker, jobs))
        b = list(pool.map(_worker, list(reversed(jobs))))
        b.reverse()
        for x, y in zip(a, b):
            if x["digest"] != y["digest"] or x["violations"] != y["violations"]:
                harness_errors.append(f"non-deterministic run seed={x['seed']}: {x['digest']} vs {y['digest']}")

        # 3. the batch
        results: list[dict] = []
        futures = []
        for i in range(n_runs):
            prof = spec.profiles[i % len(spec.profiles)]
            s = derive_seed(base_seed, spec.property, tier, i)
            futures.append(pool.submit(_worker, (spec.sim, prof, tier, s, spec.run_timeout, i)))
        # the wall cap bounds the search phase (imports, witnesses and the self-test above are not charged to it); a floor
        # of 20 % of the requested runs is completed even on a loaded machine (hard cap 6x) so that a starved check
        # never reports "held" on a handful of runs
        t_search = time.time()
        deadline = t_search + wall_cap
        hard_deadline = t_search + 6 * wall_cap
        floor = max(1, n_runs // 5)
        cut = False
        for fut in futures:
            remaining = deadline - time.time()
            if remaining <= 0 and len(results) < floor:
                remaining = hard_deadline - time.time()
            if remaining <= 0:
                cut = True
                fut.cancel()
                continue
            try:
                results.append(fut.result(timeout=max(remaining, 1.0) + spec.run_timeout))
            except cf.TimeoutError:
                cut = True
                fut.cancel()
            except Exception as ex:  # worker died
                harness_errors.append(f"worker failure: {type(ex).__name__}: {ex}")
                break
        if cut:
            for fut in futures:
                fut.cancel()

    results.sort(key=lambda r: r["index"])
    if cut and len(results) < floor and not harness_errors:
        harness_errors.append(f"only {len(results)} of {n_runs} runs completed within {6 * wall_cap:.0f}s (machine starved?)")
    for r in results:
        if r["harness_error"]:
            harness_errors.append(f"run index={r['index']} seed={r['seed']}: {r['harness_error']}")

    # classify violations
    unlisted: list[tuple[dict, dict]] = []
    other_props: dict[str, int] = {}
    for r in results:
        for v in r["violations"]:
            if v["property"] != spec.property:
                other_props[v["property"] + ":" + v["kind"]] = other_props.get(v["property"] + ":" + v["kind"], 0) + 1
                continue
            e = known_match(known, v)
            if e is not None:
                k = f"{v['kind']}@{e['site_pattern']}"
                known_hits[k] = known_hits.get(k, 0) + 1
            else:
                unlisted.append((r, v))

    exit_code = 0
    violation_lines: list[str] = [f"VIOLATION property={spec.property} replay={wp}" for wp in regressions]
    if harness_errors:
        exit_code = 2
    elif regressions and not unlisted:
        exit_code = 1
    elif unlisted:
        exit_code = 1
        # report one replay per distinct (kind, site), at most 3, smallest run index first
        seen: set[tuple[str, str]] = set()
        for r, v in unlisted:
            kk = (v["kind"], v["site"])
            if kk in seen or len(seen) >= 3:
                continue
            seen.add(kk)
            path = _minimise_and_write(spec, sim, r, v)
            violation_lines.append(f"VIOLATION property={spec.property} replay={path}")
            print(f"  kind={v['kind']} site={v['site']} step={v['step']} seed={r['seed']} detail={v['detail']}",
                  flush=True)

    wall = time.time() - t_start
    if write_evidence:
        _write_evidence(spec, sim, tier, base_seed, results, wall, known_hits, known_lines, other_props,
                        len(unlisted) + len(regressions), harness_errors, workers, cut, len(fixed_here))
    for ln in violation_lines:
        print(ln, flush=True)
    if harness_errors:
        for h in harness_errors[:5]:
            print("HARNESS-ERROR " + h, flush=True)
    n_vi = len(unlisted) + len(regressions)
    print(f"DONE property={spec.property} runs={len(results)} unlisted_violations={n_vi} "
          f"known_hits={sum(known_hits.values())} wall={wall:.1f}s exit={exit_code}", flush=True)
    return exit_code


def _replay_worker(path: str) -> tuple[bool, str | None]:
    doc, res, hit = run_replay(path)
    return hit, res.harness_error


def _minimise_and_write(spec: CheckSpec, sim: Simulator, r: dict, v: dict) -> str:
    plan, tape, seed = r["plan"], r["tape"], r["seed"]
    key = (v["property"], v["kind"], v["site"])
    try:
        mplan, mtape, used = minimise(sim, plan, tape, seed, key, spec.run_timeout)
    except Exception as ex:  # never lose the violation because shrinking failed
        print(f"  (minimisation failed: {ex}; reporting the unminimised plan)")
        mplan, mtape, used = plan, tape, 0
    res = execute_plan(sim, mplan, mtape, seed, spec.run_timeout)
    vv = next((x for x in res.violations if x.key() == key), None)
    if vv is None:   # should not happen; fall back to the original
        mplan, mtape = plan, tape
        res = execute_plan(sim, mplan, mtape, seed, spec.run_timeout)
        vv = next((x for x in res.violations if x.key() == key), None)
    vj = vv.to_json() if vv else v
    safe = re.sub(r"[^A-Za-z0-9_.-]+", "_", f"{spec.property}-{v['kind']}-{v['site']}")[:90]
    path = os.path.join(REPLAY_DIR, f"{safe}-{seed:016x}.json")
    write_replay(path, spec, r["profile"], seed, mplan, mtape, vj, res.digest)
    try:
        fresh = replay_in_fresh_interpreter(path)
        if not fresh.get("hit") or fresh.get("digest") != res.digest:
            print(f"  WARNING: fresh-interpreter replay differs: {fresh} vs digest {res.digest}")
        else:
            print(f"  replay verified in a fresh interpreter (PYTHONHASHSEED=7), digest {res.digest}, "
                  f"{used} shrink executions, ops {len(plan.get('ops', []))} -> {len(mplan.get('ops', []))}")
    except Exception as ex:  # noqa
        print(f"  WARNING: fresh-interpreter replay failed: {ex}")
    return path


def _write_evidence(spec, sim, tier, base_seed, results, wall, known_hits, known_lines, other_props, n_unlisted,
                    harness_errors, workers, cut, n_regression_witnesses=0) -> None:
    os.makedirs(EVIDENCE_DIR, exist_ok=True)
    faults: dict[str, int] = {}
    probes: dict[str, int] = {}
    states: set[str] = set()
    fps: set[str] = set()
    fps_nt: set[str] = set()
    sim_s = 0.0
    steps = 0
    per_profile: dict[str, int] = {}
    for r in results:
        for k, n in r["faults"].items():
            faults[k] = faults.get(k, 0) + n
        for k, n in r["probes"].items():
            probes[k] = probes.get(k, 0) + n
        states.update(r["states"])
        fps.add(r["fingerprint"])
        if r["nontrivial"]:
            fps_nt.add(r["fingerprint"])
        sim_s += r["sim_seconds"]
        steps += r["steps"]
        per_profile[r["profile"]] = per_profile.get(r["profile"], 0) + 1
    samples = []
    for r in results[:3]:
        if "plan" in r:
            samples.append({"seed": r["seed"], "profile": r["profile"], "case": sim.sample(r["plan"])})
    if not samples:
        samples = [{"note": "no run completed"}]
    doc = {
        "property_id": spec.property,
        "tier": tier,
        "seed": base_seed,
        "level": spec.level,
        "coverage": {
            "evaluations": len(results),
            "distinct_nontrivial": len(fps_nt),
            "rule": spec.rule,
            "samples": samples,
            "runs_requested": len(results) if not cut else None,
            "stopped_by_wall_cap": bool(cut),
            "runs_per_hour": round(len(results) / wall * 3600) if wall > 0 else 0,
            "simulated_seconds": round(sim_s, 1),
            "steps": steps,
            "faults_fired": dict(sorted(faults.items())),
            "probes_hit": dict(sorted(probes.items())),
            "distinct_abstract_states": len(states),
            "distinct_schedule_fingerprints": len(fps),
            "runs_per_profile": per_profile,
            "workers": workers,
            "components_real": sim.components_real,
            "components_stub": sim.components_stub,
            "known_findings_hit": known_hits,
            "known_finding_lines": known_lines,
            "regression_witnesses_replayed": n_regression_witnesses,
            "signals_for_other_properties": dict(sorted(other_props.items())),
            "harness_errors": harness_errors[:5],
            "repo": repo_root(),
        },
        "assumptions": spec.assumptions,
        "wall_s": round(wall, 2),
        "violations": n_unlisted,
    }
    if doc["coverage"]["runs_requested"] is None:
        del doc["coverage"]["runs_requested"]
    with open(os.path.join(EVIDENCE_DIR, f"{spec.property}.json"), "w") as f:
        json.dump(doc, f, indent=1)
        f.write("\n")
