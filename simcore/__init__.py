"""Shared core of the deterministic simulators for Open Pectus (see /verif/DESIGN.md section 2)."""
